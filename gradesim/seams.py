"""
gradesim.seams -- the seams the simulator owns.

  * library RNG: seeding, and a record/edge layer in front of the four entry
    points the library uses
  * stack depth: exact depth measurement, headroom-limited calls, peak-depth probe
  * step budget (bounded liveness) via sys.setprofile
  * author-side stubs: scripted functions, comparers, credit schedules,
    SimSampler, SimFunctionSet, SimItemGrader
All stubs take their behaviour from an Env, which carries the current event's
fault script; the R1 replica gets its own Env with the same script.
"""
import random
import sys

from gradesim.core import load_lib, canon

# ---------------------------------------------------------------------------
# RNG
# ---------------------------------------------------------------------------


def seed_lib(seed):
    lib = load_lib()
    s = int(seed) % (2 ** 32)
    random.seed(s)
    lib.np.random.seed(s)


class RngLayer(object):
    """
    Context manager wrapping np.random.random_sample / rand / randint and
    random.choice (the only entry points mitxgraders uses).

    mode 'record': count draws.  mode 'edge': additionally, with probability p
    per call, substitute a rare-but-legal value (F4).  Edge decisions come from a
    private PRNG seeded by the event, so original and replica see the same ones.
    Values whose only effect is a measure-zero degeneracy (exactly 0.5 for the
    array generators) are never produced.
    """

    def __init__(self, mode='record', edge_seed=0, p=0.0, stats=None):
        self.mode = mode
        self.rng = random.Random(edge_seed)
        self.p = p
        self.stats = stats if stats is not None else {}
        self.draws = 0
        self.edges = 0
        self.subs = []      # substitutions made since the owner last cleared the list
        self._saved = None

    def bump(self, key, n=1):
        self.stats[key] = self.stats.get(key, 0) + n

    def __enter__(self):
        lib = load_lib()
        np = lib.np
        self._saved = (np.random.random_sample, np.random.rand, np.random.randint, random.choice)
        o_rs, o_rand, o_randint, o_choice = self._saved
        layer = self
        top = 1.0 - 2.0 ** -53

        def edge_float_array(arr):
            if arr.size == 0:
                return arr
            flat = arr.reshape(-1)
            k = layer.rng.randrange(flat.size)
            flat[k] = layer.rng.choice([0.0, top])
            return arr

        def random_sample(size=None):
            layer.draws += 1
            val = o_rs(size)
            if layer.mode == 'edge' and layer.rng.random() < layer.p:
                layer.edges += 1
                layer.bump('F4.random_sample')
                if size is None:
                    pick = layer.rng.choice([0.0, top])
                    layer.subs.append(('random_sample', pick))
                    return pick
                layer.subs.append(('random_sample', 'array'))
                return edge_float_array(val)
            return val

        def rand(*dims):
            layer.draws += 1
            val = o_rand(*dims)
            if layer.mode == 'edge' and layer.rng.random() < layer.p:
                layer.edges += 1
                layer.bump('F4.rand')
                if not dims:
                    return layer.rng.choice([0.0, top])
                return edge_float_array(val)
            return val

        def randint(low, high=None, size=None, dtype=int):
            layer.draws += 1
            val = o_randint(low, high, size, dtype) if size is not None else o_randint(low, high)
            if layer.mode == 'edge' and size is None and layer.rng.random() < layer.p:
                layer.edges += 1
                layer.bump('F4.randint')
                lo, hi = (0, low) if high is None else (low, high)
                pick = layer.rng.choice(['low', 'top'])
                layer.subs.append(('randint', pick, lo, hi))
                return type(val)(lo if pick == 'low' else hi - 1)
            return val

        def choice(seq):
            layer.draws += 1
            val = o_choice(seq)
            if layer.mode == 'edge' and layer.rng.random() < layer.p:
                layer.edges += 1
                layer.bump('F4.choice')
                pick = layer.rng.choice([0, len(seq) - 1])
                layer.subs.append(('choice', pick))
                return seq[pick]
            return val

        np.random.random_sample = random_sample
        np.random.rand = rand
        np.random.randint = randint
        random.choice = choice
        return self

    def __exit__(self, *exc):
        lib = load_lib()
        np = lib.np
        np.random.random_sample, np.random.rand, np.random.randint, random.choice = self._saved
        return False


# ---------------------------------------------------------------------------
# Stack depth
# ---------------------------------------------------------------------------
def current_depth():
    f = sys._getframe(1)
    n = 0
    while f is not None:
        n += 1
        f = f.f_back
    return n


def call_with_headroom(fn, headroom):
    """Call fn() with the recursion limit set to (depth here + headroom)."""
    old = sys.getrecursionlimit()
    depth = current_depth()
    sys.setrecursionlimit(depth + 1 + int(headroom))
    try:
        return fn()
    finally:
        sys.setrecursionlimit(old)


def measure_peak_depth(fn, guard_name='check'):
    """
    Run fn() and return (peak, outside, result, exception):
      peak     peak python-frame depth reached above the caller of fn
      outside  peak depth reached while no frame of a function called `guard_name` is active
               (AbstractGrader.check is the documented entry of the region the library guards
               with try/except; `outside` is what the unguarded prologue/epilogue need)
    Uses sys.setprofile; only python 'call'/'return' events move the depth.
    """
    state = {'d': 0, 'peak': 0, 'in': 0, 'outside': 0, 'stack': []}

    def prof(frame, event, arg):
        if event == 'call':
            state['d'] += 1
            g = frame.f_code.co_name == guard_name
            state['stack'].append(g)
            if g:
                state['in'] += 1
            if state['d'] > state['peak']:
                state['peak'] = state['d']
            if state['in'] == 0 and state['d'] > state['outside']:
                state['outside'] = state['d']
        elif event == 'return':
            state['d'] -= 1
            if state['stack'] and state['stack'].pop():
                state['in'] -= 1

    err = None
    res = None
    sys.setprofile(prof)
    try:
        try:
            res = fn()
        except BaseException as e:  # pylint: disable=broad-except
            err = e
    finally:
        sys.setprofile(None)
    return state['peak'], state['outside'], res, err


# ---------------------------------------------------------------------------
# Step budget (bounded liveness)
# ---------------------------------------------------------------------------
class BudgetExceeded(BaseException):
    """Deliberately not an Exception: the library's `except Exception` must not swallow it."""


def run_with_budget(fn, budget):
    """Run fn() counting python+C call events; raise BudgetExceeded past the budget. Returns (result, steps)."""
    state = {'n': 0}

    def prof(frame, event, arg):
        if event == 'call' or event == 'c_call':
            state['n'] += 1
            if state['n'] > budget:
                sys.setprofile(None)
                raise BudgetExceeded(state['n'])

    sys.setprofile(prof)
    try:
        res = fn()
    finally:
        sys.setprofile(None)
    return res, state['n']


# ---------------------------------------------------------------------------
# Env: per-world stub context
# ---------------------------------------------------------------------------
class SimStudentErrorBase(Exception):
    pass


_EXC_CACHE = {}


def sim_exceptions():
    """Simulator-defined members of the library's error family (created lazily: need the lib)."""
    if _EXC_CACHE:
        return _EXC_CACHE
    lib = load_lib()

    class SimStudentError(lib.exc.StudentFacingError):
        """scripted student-facing error raised by an author callable"""

    class SimConfigError(lib.exc.ConfigError):
        """scripted configuration error raised by an author callable"""

    class SimPlainError(Exception):
        """scripted non-library exception"""

    _EXC_CACHE.update({
        'SimStudentError': SimStudentError,
        'SimConfigError': SimConfigError,
        'SimPlainError': SimPlainError,
        'ValueError': ValueError, 'TypeError': TypeError, 'KeyError': KeyError,
        'IndexError': IndexError, 'ZeroDivisionError': ZeroDivisionError,
        'OverflowError': OverflowError, 'FloatingPointError': FloatingPointError,
        'ArithmeticError': ArithmeticError, 'RuntimeError': RuntimeError,
        'AttributeError': AttributeError, 'AssertionError': AssertionError,
        'LinAlgError': lib.np.linalg.LinAlgError,
        'StudentFacingError': lib.exc.StudentFacingError,
        'ConfigError': lib.exc.ConfigError,
        'InvalidInput': lib.exc.InvalidInput,
    })
    return _EXC_CACHE


EXC_NAMES_PLAIN = ['ValueError', 'TypeError', 'KeyError', 'IndexError', 'ZeroDivisionError',
                   'OverflowError', 'FloatingPointError', 'ArithmeticError', 'RuntimeError',
                   'SimPlainError', 'LinAlgError', 'AttributeError', 'AssertionError']
EXC_NAMES_LIB = ['SimStudentError', 'SimConfigError']


class Env(object):
    """
    Context shared by all stubs of one world (or of one replica).
    event:    the event being executed (dict) or None; event['faults'] is a list of
              {'kind': 'F1'|'F2'|'F6', 'target': stub name, 'k': local invocation index, ...}
    counters: per-event invocation counters keyed by stub name
    records:  per-event list of (stub name, what it saw / did)
    """

    def __init__(self, role='orig', stats=None):
        self.role = role
        self.event = None
        self.counters = {}
        self.records = []
        self.stats = stats if stats is not None else {}
        self.reenter_cb = None   # set by worlds that support F6
        self.inner = []          # records of re-entrant calls made in this event

    def begin(self, event):
        self.event = event
        self.counters = {}
        self.records = []
        self.inner = []

    def end(self):
        self.event = None

    def bump(self, key, n=1):
        self.stats[key] = self.stats.get(key, 0) + n

    def tick(self, name):
        i = self.counters.get(name, 0)
        self.counters[name] = i + 1
        return i

    def faults_for(self, name, k):
        if not self.event:
            return []
        return [f for f in self.event.get('faults', ())
                if f.get('target') == name and f.get('k') == k]

    def maybe_fail(self, name, k):
        """Apply F1 / F6 scripted for invocation k of stub `name`. Returns an F2 cast or None."""
        cast = None
        for f in self.faults_for(name, k):
            kind = f['kind']
            if kind == 'F6':
                if self.role == 'orig' and self.reenter_cb is not None:
                    self.bump('F6.reentry')
                    self.reenter_cb(f)
                elif self.role != 'orig':
                    # the replica lives in a world where the re-entrant call does not happen,
                    # but must consume the RNG identically
                    if f.get('reseed') is not None:
                        seed_lib(f['reseed'] + 1)
            elif kind == 'F1':
                if self.role == 'orig':
                    self.bump('F1.' + f['exc'])
                raise sim_exceptions()[f['exc']](f.get('msg', 'scripted failure'))
            elif kind == 'F2':
                if self.role == 'orig':
                    self.bump('F2.' + f['cast'])
                cast = f['cast']
        return cast


def apply_cast(value, cast):
    lib = load_lib()
    np = lib.np
    if cast is None:
        return value
    if cast == 'np.float64':
        return np.float64(value) if isinstance(value, (int, float)) and not isinstance(value, bool) else value
    if cast == '0d':
        return np.array(value) if isinstance(value, (int, float, complex)) else value
    if cast == 'complex0':
        return complex(value, 0.0) if isinstance(value, (int, float)) and not isinstance(value, bool) else value
    if cast == 'int':
        return int(round(value)) if isinstance(value, float) and abs(value) < 1e9 else value
    if cast == 'np.int64':
        return np.int64(int(round(value))) if isinstance(value, (int, float)) and abs(value) < 1e9 else value
    return value


# ---------------------------------------------------------------------------
# Scripted functions
# ---------------------------------------------------------------------------
def _body(kind, params):
    lib = load_lib()
    np = lib.np
    if kind == 'square':
        return lambda x: x * x
    if kind == 'lin':
        a, b = params.get('a', 2.0), params.get('b', 1.0)
        return lambda x: a * x + b
    if kind == 'const':
        c = params.get('c', 1.0)
        return lambda *args: c
    if kind == 'sum':
        return lambda *args: sum(args[1:], args[0])
    if kind == 'first':
        return lambda *args: args[0]
    if kind == 'recip':
        return lambda x: 1.0 / x
    if kind == 'sqrt':
        return lambda x: np.sqrt(x)   # nan -> numpy error state -> ValueError
    if kind == 'zero':
        return lambda *args: 0.0
    raise ValueError('unknown function kind %r' % kind)


def make_fn(name, spec, env):
    """
    A scripted user function.  spec: {'kind':..., 'arity': n, ...params}
    The callable records its arguments, applies scripted faults, then delegates
    to a small deterministic body.
    """
    arity = spec.get('arity', 1)
    body = _body(spec.get('kind', 'square'), spec)
    record = spec.get('record', False)

    def call(*args):
        k = env.tick(name)
        if record:
            env.records.append([name, k, canon(list(args))])
        cast = env.maybe_fail(name, k)
        return apply_cast(body(*args), cast)

    if spec.get('nin', False) or arity not in (1, 2, 3):
        # declare the arity the way numpy ufuncs / RandomFunction samples do
        call.nin = arity
        fn = call
    else:
        # an ordinary Python function of that arity (the library inspects its signature)
        if arity == 1:
            fn = lambda x: call(x)              # noqa: E731
        elif arity == 2:
            fn = lambda x, y: call(x, y)        # noqa: E731
        else:
            fn = lambda x, y, z: call(x, y, z)  # noqa: E731
    fn.sim_name = name
    fn.__name__ = name
    fn.__qualname__ = name
    return fn


def make_comparer(name, spec, env):
    """
    A scripted comparer(comparer_params_eval, student_eval, utils).
    kind 'equal': utils.within_tolerance(params[0], student)
    kind 'table': returns spec['returns'][i % len] for its i-th invocation in the event
    """
    kind = spec.get('kind', 'equal')
    returns = spec.get('returns')

    def comparer(comparer_params_eval, student_eval, utils):
        k = env.tick(name)
        env.maybe_fail(name, k)
        if kind == 'equal':
            return utils.within_tolerance(comparer_params_eval[0], student_eval)
        if kind == 'equal_tagged':
            # equality, but a disagreement carries this comparer's name: which comparer judged a
            # wrong answer is then visible in the result
            if utils.within_tolerance(comparer_params_eval[0], student_eval):
                return True
            return {'grade_decimal': 0, 'msg': 'judged by ' + name}
        val = returns[k % len(returns)]
        if isinstance(val, dict):
            return dict(val)
        return val

    comparer.sim_name = name
    comparer.__name__ = name
    comparer.__qualname__ = name
    return comparer


def make_credit(name, spec, env):
    """A scripted attempt-credit schedule: table lookup by attempt number (int or float returns)."""
    table = spec['table']        # list of values for attempt 1, 2, ...; last repeats

    def credit(attempt):
        env.tick(name)
        env.records.append([name, attempt])
        i = min(max(int(attempt), 1), len(table)) - 1
        return table[i]

    credit.sim_name = name
    credit.__name__ = name
    credit.__qualname__ = name
    return credit


# ---------------------------------------------------------------------------
# Library subclasses (official extension points). Created lazily (need the lib).
# ---------------------------------------------------------------------------
_CLS = {}


def sim_classes():
    if _CLS:
        return _CLS
    lib = load_lib()
    from voluptuous import Schema, Required
    VariableSamplingSet = lib.sampling.VariableSamplingSet
    FunctionSamplingSet = lib.sampling.FunctionSamplingSet
    ItemGrader = lib.base.ItemGrader
    ConfigError = lib.exc.ConfigError

    class SimSampler(VariableSamplingSet):
        """
        Author-defined sampling set handing out *scheduled* values and recording them.
        config: name (str), values (list of numbers / arrays; handed out cyclically per event),
                or mode 'rng' with lo/hi (honest draw from the library stream, recorded).
        """
        schema_config = Schema({
            Required('name'): str,
            Required('values', default=[]): list,
            Required('mode', default='values'): str,
            Required('lo', default=1.0): float,
            Required('hi', default=5.0): float,
        })
        env = None

        @property
        def sim_name(self):
            return self.config['name']

        def gen_sample(self):
            env = self.env
            name = self.config['name']
            k = env.tick(name)
            env.maybe_fail(name, k)
            if self.config['mode'] == 'rng':
                lo, hi = self.config['lo'], self.config['hi']
                val = lo + (hi - lo) * lib.np.random.random_sample()
            else:
                vals = self.config['values']
                val = vals[k % len(vals)]
                if isinstance(val, list):
                    val = lib.math_array.MathArray(val)
            env.records.append([name, k, canon(val)])
            return val

    class SimFunctionSet(FunctionSamplingSet):
        """Author-defined function sampling set: hands out its scripted functions cyclically."""
        schema_config = Schema({
            Required('name'): str,
            Required('funcs'): list,
        })
        env = None

        @property
        def sim_name(self):
            return self.config['name']

        def gen_sample(self):
            env = self.env
            name = self.config['name']
            k = env.tick(name)
            env.maybe_fail(name, k)
            funcs = self.config['funcs']
            env.records.append([name, k])
            return funcs[k % len(funcs)]

    class SimItemGrader(ItemGrader):
        """
        Author-defined, table-driven ItemGrader.

        check_response looks (expect, input) up in config['table'] ({expect: {input: credit}});
        the message carries a tag unique to (grader, input) so that results are attributable
        to the input they grade.  The shadowable inference hooks refuse expect strings that
        start with a marker, with a library error class:
           '!I' infer_from_expect, '!V' validate_expect, '!P' post_schema_ans_val.
        """
        env = None

        @property
        def sim_name(self):
            return self.config['name']

        @property
        def schema_config(self):
            schema = super(SimItemGrader, self).schema_config
            return schema.extend({
                Required('name'): str,
                Required('table', default={}): dict,
                Required('tag', default=True): bool,
                # an author may well return module-level result constants: with shared=True the
                # same dictionary object is returned for the same (expect, input) every time
                Required('shared', default=False): bool,
            })

        def infer_from_expect(self, expect):
            if expect.startswith('!I'):
                raise ConfigError('Answer cannot be inferred for this grader\n(' + expect + ')')
            return expect

        def validate_expect(self, expect):  # pylint: disable=arguments-differ
            expect = Schema(str)(expect)
            if expect.startswith('!V'):
                raise ConfigError('expect refused by validate_expect\n(' + expect + ')')
            return expect

        def post_schema_ans_val(self, answer_tuple):
            for entry in answer_tuple:
                for exp in entry['expect']:
                    if isinstance(exp, str) and exp.startswith('!P'):
                        raise ConfigError('expect refused by post_schema_ans_val\n(' + exp + ')')
            return answer_tuple

        def check_response(self, answer, student_input, **kwargs):
            env = self.env
            name = self.config['name']
            k = env.tick(name)
            env.records.append([name, k, answer['expect'], student_input])
            env.maybe_fail(name, k)
            row = self.config['table'].get(answer['expect'], {})
            credit = row.get(student_input, 1 if student_input == answer['expect'] else 0)
            grade = credit * answer['grade_decimal']
            msg = answer['msg'] if grade > 0 else ''
            if self.config['tag']:
                tag = '{%s|%s}' % (name, student_input)
                msg = tag if not msg else msg + ' ' + tag
            ok = answer['ok'] if credit == 1 else self.grade_decimal_to_ok(grade)
            result = {'ok': ok, 'grade_decimal': grade, 'msg': msg}
            if self.config['shared']:
                # module-level constants in the author's script: every grader of this world built
                # from the same table hands out the same objects
                cache = env.__dict__.setdefault('shared_results', {})
                key = (answer['expect'], student_input if self.config['tag'] else (student_input == answer['expect']),
                       repr(grade), msg, repr(ok))
                return cache.setdefault(key, result)
            return result

    _CLS.update({'SimSampler': SimSampler, 'SimFunctionSet': SimFunctionSet,
                 'SimItemGrader': SimItemGrader})
    return _CLS
