"""
gradesim.core -- library loading, PRNG derivation, canonical outcomes/digests,
journal codec, fork-per-run execution, ddmin shrinking.

Nothing in this module draws from a PRNG or reads a clock on a path that can
influence a run: clocks are used for throughput statistics and watchdogs only.
"""
import faulthandler
import hashlib
import json
import os
import re
import select
import signal
import sys
import time
import traceback

VERIF_DIR = os.path.dirname(os.path.dirname(os.path.abspath(__file__)))
REPO = os.environ.get('VERIF_REPO', '/repo')

# ---------------------------------------------------------------------------
# Library loading (the "build": pure Python, so rebuild == import from the tree)
# ---------------------------------------------------------------------------
_LIB = None


class Lib(object):
    """Namespace of everything the simulator uses from the library."""


def load_lib():
    global _LIB
    if _LIB is not None:
        return _LIB
    if REPO not in sys.path:
        sys.path.insert(0, REPO)
    import numpy as np
    import mitxgraders
    from mitxgraders import baseclasses, listgrader, stringgrader, sampling, matrixsampling
    from mitxgraders import exceptions, attemptcredit, comparers
    from mitxgraders.formulagrader import formulagrader, matrixgrader, intervalgrader, integralgrader
    from mitxgraders.helpers import munkres, math_helpers
    from mitxgraders.helpers.calc import expressions, math_array, mathfuncs
    from mitxgraders.helpers.calc import exceptions as calc_exceptions
    lib = Lib()
    lib.np = np
    lib.mitx = mitxgraders
    lib.base = baseclasses
    lib.listgrader = listgrader
    lib.stringgrader = stringgrader
    lib.sampling = sampling
    lib.matrixsampling = matrixsampling
    lib.exc = exceptions
    lib.calc_exc = calc_exceptions
    lib.attemptcredit = attemptcredit
    lib.comparers = comparers
    lib.formulagrader = formulagrader
    lib.matrixgrader = matrixgrader
    lib.intervalgrader = intervalgrader
    lib.integralgrader = integralgrader
    lib.munkres = munkres
    lib.math_helpers = math_helpers
    lib.expressions = expressions
    lib.math_array = math_array
    lib.mathfuncs = mathfuncs
    lib.path = os.path.dirname(os.path.abspath(mitxgraders.__file__))
    if not lib.path.startswith(os.path.abspath(REPO)):
        raise RuntimeError('mitxgraders imported from %s, not from %s' % (lib.path, REPO))
    _LIB = lib
    return lib


# ---------------------------------------------------------------------------
# PRNG derivation: one integer decides a run
# ---------------------------------------------------------------------------
def derive(*parts):
    """Deterministic 63-bit integer from any printable parts."""
    h = hashlib.sha256(('|'.join(str(p) for p in parts)).encode()).digest()
    return int.from_bytes(h[:8], 'big') >> 1


# ---------------------------------------------------------------------------
# Canonical form of outcomes and author objects
# ---------------------------------------------------------------------------
_ADDR = re.compile(r'0x[0-9a-fA-F]+')


def norm_text(s):
    return _ADDR.sub('0x..', s)


def fn_name(f):
    name = getattr(f, 'sim_name', None)
    if name is not None:
        return 'sim:' + name
    mod = getattr(f, '__module__', '') or ''
    qn = getattr(f, '__qualname__', None) or getattr(f, '__name__', None)
    if qn is None:
        return norm_text(repr(f))
    return mod + '.' + qn


def canon(obj, label_graders=False):
    """
    JSON-able canonical form. Equal canon <=> observably equal for our purposes.
    label_graders: render grader objects by class and simulator label only (used for
    author-object snapshots, where a referenced grader's own legitimately inferred
    answers must not count as a change of the referencing object).
    """
    import numpy as np
    lib = load_lib()
    grader_base = lib.base.AbstractGrader

    def rec(obj, depth, seen):
        if depth > 40:
            return {'deep': True}
        if obj is None or isinstance(obj, (bool, str)):
            return obj
        if isinstance(obj, np.ndarray):
            return {'arr': type(obj).__name__, 'shape': list(obj.shape), 'dtype': str(obj.dtype),
                    'v': [rec(x, depth + 1, seen) for x in obj.ravel().tolist()]}
        if isinstance(obj, np.generic):
            return {'np': type(obj).__name__, 'v': rec(obj.item(), depth + 1, seen)}
        if isinstance(obj, int):
            return obj
        if isinstance(obj, float):
            if obj != obj:
                return {'f': 'nan'}
            return {'f': repr(obj)}
        if isinstance(obj, complex):
            return {'c': [repr(obj.real), repr(obj.imag)]}
        if isinstance(obj, tuple):
            return {'t': [rec(x, depth + 1, seen) for x in obj]}
        if isinstance(obj, list):
            return [rec(x, depth + 1, seen) for x in obj]
        if isinstance(obj, (set, frozenset)):
            return {'s': sorted(json.dumps(rec(x, depth + 1, seen), sort_keys=True) for x in obj)}
        if isinstance(obj, dict):
            out = {}
            for k in obj:
                kk = k if isinstance(k, str) else json.dumps(rec(k, depth + 1, seen), sort_keys=True)
                out[kk] = rec(obj[k], depth + 1, seen)
            return out
        if isinstance(obj, BaseException):
            return {'exc': type(obj).__name__, 'msg': norm_text(str(obj))}
        cfg = getattr(obj, 'config', None)
        if cfg is not None and not callable(cfg):
            if label_graders and isinstance(obj, grader_base):
                return {'grader': type(obj).__name__, 'label': getattr(obj, 'sim_label', None)}
            if id(obj) in seen:
                return {'obj': type(obj).__name__, 'cycle': True}
            d = {'obj': type(obj).__name__, 'config': rec(cfg, depth + 1, seen | {id(obj)})}
            name = getattr(obj, 'sim_name', None)
            if name is not None:
                d['sim'] = name
            return d
        if callable(obj):
            return {'fn': fn_name(obj)}
        return {'repr': norm_text(repr(obj))}

    return rec(obj, 0, frozenset())


def digest(obj, label_graders=False):
    return hashlib.sha256(json.dumps(canon(obj, label_graders), sort_keys=True).encode()).hexdigest()[:16]


def jdigest(jsonable):
    return hashlib.sha256(json.dumps(jsonable, sort_keys=True).encode()).hexdigest()[:16]


def outcome(fn, *args, **kwargs):
    """
    Run fn and describe what happened in canonical, comparable form:
      {'k':'ret','v':canon(result)}  or  {'k':'exc','cls':name,'msg':text,'fam':family}
    family: 'student' | 'config' | 'mitx' | 'other'
    """
    lib = load_lib()
    try:
        res = fn(*args, **kwargs)
    except RecursionError as err:
        return {'k': 'exc', 'cls': 'RecursionError', 'msg': '', 'fam': 'other'}
    except Exception as err:  # pylint: disable=broad-except
        return {'k': 'exc', 'cls': type(err).__name__, 'msg': norm_text(str(err)),
                'fam': family(err, lib)}
    return {'k': 'ret', 'v': canon(res)}


def outcome2(fn, *args, **kwargs):
    """Like outcome, but also returns the raw result (None when an exception escaped)."""
    lib = load_lib()
    try:
        res = fn(*args, **kwargs)
    except RecursionError:
        return {'k': 'exc', 'cls': 'RecursionError', 'msg': '', 'fam': 'other'}, None
    except Exception as err:  # pylint: disable=broad-except
        return {'k': 'exc', 'cls': type(err).__name__, 'msg': norm_text(str(err)),
                'fam': family(err, lib)}, None
    return {'k': 'ret', 'v': canon(res)}, res


def family(err, lib=None):
    lib = lib or load_lib()
    if isinstance(err, lib.exc.StudentFacingError):
        return 'student'
    if isinstance(err, lib.exc.ConfigError):
        return 'config'
    if isinstance(err, lib.exc.MITxError):
        return 'mitx'
    return 'other'


def short(o, n=160):
    """One-line description of an outcome."""
    if o is None:
        return 'None'
    if o.get('k') == 'exc':
        return '%s(%s)' % (o['cls'], o['msg'][:n])
    s = json.dumps(o.get('v'), sort_keys=True)
    return 'ret ' + (s if len(s) <= n else s[:n] + '...')


# ---------------------------------------------------------------------------
# Journal codec: journals are pure JSON; tuples, complex numbers and arrays are tagged
# ---------------------------------------------------------------------------
def T(*items):
    return {'__tuple__': list(items)}


def plain(data):
    """Decode the data-only tags (tuple / complex / float specials). No library objects."""
    if isinstance(data, list):
        return [plain(x) for x in data]
    if isinstance(data, dict):
        if '__tuple__' in data:
            return tuple(plain(x) for x in data['__tuple__'])
        if '__c__' in data:
            return complex(data['__c__'][0], data['__c__'][1])
        if '__float__' in data:
            return float(data['__float__'])
        return {k: plain(v) for k, v in data.items()}
    return data


# ---------------------------------------------------------------------------
# fork-per-run execution
# ---------------------------------------------------------------------------
class ChildFailure(Exception):
    pass


def _write_all(fd, data):
    view = memoryview(data)
    while view:
        n = os.write(fd, view)
        view = view[n:]


def run_in_child(fn, timeout=60.0):
    """
    Run fn() in a forked child; returns ('ok', result) | ('error', text) | ('timeout', text).
    The result must be JSON-able.
    """
    r, w = os.pipe()
    sys.stdout.flush()
    sys.stderr.flush()
    pid = os.fork()
    if pid == 0:
        code = 0
        try:
            os.close(r)
            try:
                faulthandler.enable()
                faulthandler.dump_traceback_later(max(1.0, timeout - 1.0), exit=False)
            except Exception:  # pylint: disable=broad-except
                pass
            try:
                res = fn()
                data = b'OK' + json.dumps(res).encode()
            except BaseException:  # pylint: disable=broad-except
                data = b'ER' + traceback.format_exc().encode()
                code = 3
            _write_all(w, data)
        finally:
            os._exit(code)
    os.close(w)
    chunks = []
    deadline = time.monotonic() + timeout
    status = None
    while True:
        left = deadline - time.monotonic()
        if left <= 0:
            status = 'timeout'
            break
        ready, _, _ = select.select([r], [], [], min(left, 1.0))
        if ready:
            chunk = os.read(r, 1 << 16)
            if not chunk:
                break
            chunks.append(chunk)
    os.close(r)
    if status == 'timeout':
        try:
            os.kill(pid, signal.SIGKILL)
        except OSError:
            pass
        os.waitpid(pid, 0)
        return 'timeout', 'child exceeded %.0fs wall clock' % timeout
    _, wstatus = os.waitpid(pid, 0)
    data = b''.join(chunks)
    if data[:2] == b'OK':
        return 'ok', json.loads(data[2:].decode())
    if data[:2] == b'ER':
        return 'error', data[2:].decode()
    how = ('killed by signal %d' % os.WTERMSIG(wstatus) if os.WIFSIGNALED(wstatus)
           else 'exit status %d' % os.WEXITSTATUS(wstatus) if os.WIFEXITED(wstatus) else 'status %r' % wstatus)
    return 'error', 'child died without output (%d bytes, %s)' % (len(data), how)


# ---------------------------------------------------------------------------
# ddmin over a list
# ---------------------------------------------------------------------------
def ddmin(items, test, max_tests=300, deadline=None):
    """
    Classic ddmin: smallest sublist (order preserved) for which test(sublist) is True.
    test(items) is assumed True. Returns (sublist, tests_used).
    """
    n = 2
    used = 0
    items = list(items)
    while len(items) >= 2:
        if used >= max_tests or (deadline and time.monotonic() > deadline):
            break
        chunk = max(1, len(items) // n)
        subsets = [items[i:i + chunk] for i in range(0, len(items), chunk)]
        reduced = False
        # try complements first (drop a chunk)
        for i in range(len(subsets)):
            cand = [x for j, s in enumerate(subsets) if j != i for x in s]
            if not cand:
                continue
            used += 1
            if test(cand):
                items = cand
                n = max(n - 1, 2)
                reduced = True
                break
            if used >= max_tests or (deadline and time.monotonic() > deadline):
                break
        if not reduced:
            if n >= len(items):
                break
            n = min(len(items), n * 2)
    if len(items) == 1 and used < max_tests:
        pass
    return items, used
