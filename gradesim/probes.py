"""
gradesim.probes -- R2: pristine baseline probes through the public API only.

The suite is evaluated once in a pristine child of the zygote (the baseline) and again at
the end of every run; any difference is process-global damage done by the run.
No private attribute of the library is read.
"""
from gradesim.core import load_lib, outcome, canon, digest
from gradesim import seams


def _table_digest(table):
    """Digest of a {name: value-or-callable} table: names, and values for non-callables."""
    out = {}
    for k in sorted(table):
        v = table[k]
        out[k] = 'callable' if callable(v) else canon(v)
    return digest(out)


def probe_suite():
    lib = load_lib()
    m = lib.mitx
    calc = __import__('mitxgraders.helpers.calc', fromlist=['x'])
    ev = calc.evaluator
    out = {}
    MA = lib.math_array.MathArray

    def add(name, fn):
        seams.seed_lib(12345)
        out[name] = outcome(fn)

    matvars = {'M': MA([[2.0, 0.0], [0.0, 2.0]]), 'S': MA([[1.0, 1.0], [1.0, 1.0]])}
    add('negpow.default_on', lambda: ev('M^-1', variables=matvars)[0])
    add('negpow.singular', lambda: ev('S^-1', variables=matvars)[0])
    add('np.div0', lambda: ev('1/0')[0])
    add('np.ln0', lambda: ev('ln(0)')[0])
    add('np.overflow', lambda: ev('2^2000')[0])
    add('np.exp_over', lambda: ev('exp(1000)')[0])
    add('np.arcsin2', lambda: ev('arcsin(2)')[0])
    add('np.sqrtneg', lambda: ev('sqrt(-4)')[0])
    add('np.geterr', lambda: lib.np.geterr())
    add('consts', lambda: ev('pi+e+i*j')[0])
    add('suffix.percent', lambda: ev('5%')[0])
    add('tables.DEFAULT_VARIABLES', lambda: _table_digest(calc.DEFAULT_VARIABLES))
    add('tables.DEFAULT_FUNCTIONS', lambda: _table_digest(calc.DEFAULT_FUNCTIONS))
    add('tables.DEFAULT_SUFFIXES', lambda: _table_digest(calc.DEFAULT_SUFFIXES))
    add('tables.METRIC_SUFFIXES', lambda: _table_digest(calc.METRIC_SUFFIXES))
    add('tables.ARRAY_ONLY_FUNCTIONS',
        lambda: _table_digest(lib.mathfuncs.ARRAY_ONLY_FUNCTIONS))
    add('tables.pauli', lambda: canon(getattr(calc, 'pauli', None)))
    # default-constructed graders: their configs expose polluted class defaults / shared tables
    add('cfg.StringGrader', lambda: canon(m.StringGrader().config))
    add('cfg.FormulaGrader', lambda: canon(m.FormulaGrader().config))
    add('cfg.NumericalGrader', lambda: canon(m.NumericalGrader().config))
    add('cfg.MatrixGrader', lambda: canon(m.MatrixGrader().config))
    add('cfg.SingleListGrader', lambda: canon(m.SingleListGrader(subgrader=m.StringGrader()).config))
    add('cfg.ListGrader', lambda: canon(m.ListGrader(subgraders=m.StringGrader()).config))
    add('cfg.IntervalGrader', lambda: canon(m.IntervalGrader().config))
    add('cfg.SumGrader', lambda: canon(m.SumGrader(
        answers={'lower': '1', 'upper': '2', 'summand': 'n', 'summation_variable': 'n'}).config))
    add('cfg.RealInterval', lambda: canon(m.RealInterval().config))
    add('cfg.SquareMatrices', lambda: canon(m.SquareMatrices().config))
    add('cfg.LinearCredit', lambda: canon(m.LinearCredit().config))
    # verdicts with the default comparers
    add('verdict.formula', lambda: m.FormulaGrader(answers='x^2', variables=['x'])(None, 'x*x'))
    add('verdict.formula.wrong', lambda: m.FormulaGrader(answers='x^2', variables=['x'])(None, 'x'))
    add('verdict.numerical', lambda: m.NumericalGrader(answers='pi')(None, '3.14159'))
    add('verdict.matrix', lambda: m.MatrixGrader(
        answers='A^-1', variables=['A'], max_array_dim=2,
        sample_from={'A': m.RealMatrices(shape=[2, 2])})(None, 'A^-2*A'))
    add('verdict.matrix.nonegpow', lambda: m.MatrixGrader(
        answers='A', variables=['A'], max_array_dim=2, negative_powers=False,
        sample_from={'A': m.RealMatrices(shape=[2, 2])})(None, 'A^-1*A*A'))
    # the same name-free strings the matrix tenants submit: a grader with negative powers
    # disabled must refuse them whatever was evaluated before
    for lit in ('[[2,0],[0,4]]^-1', '[[2,0],[0,4]]^-1*[1,1]', '[[1,2],[3,4]]^-2'):
        add('negpow.literal.' + lit, lambda lit=lit: m.MatrixGrader(
            answers='[[1,0],[0,1]]', negative_powers=False, max_array_dim=2)(None, lit))
    add('verdict.string', lambda: m.StringGrader(answers='cat')(None, 'Cat'))
    add('verdict.interval', lambda: m.IntervalGrader(answers='[1,2)')(None, '[1,2)'))
    add('verdict.constants', lambda: m.FormulaGrader(answers='e^(i*pi)')(None, '-1'))
    add('funcs.matrix_only', lambda: m.FormulaGrader(answers='1')(None, 'det([[1,0],[0,1]])'))
    add('undefined.var', lambda: ev('zzz+1')[0])
    add('string.quiet.validation', lambda: m.StringGrader(
        answers='cat', validation_pattern='[a-z]+', explain_validation=None)(None, '123'))
    add('string.quiet.minimums', lambda: m.StringGrader(
        accept_any=True, min_length=5, explain_minimums=None)(None, 'ab'))
    add('string.wrong', lambda: m.StringGrader(answers='cat')(None, 'dog'))
    add('interval.brackets', lambda: m.IntervalGrader(answers='[1,2)')(None, '<1,2>'))
    add('interval.expect', lambda: m.IntervalGrader()('[1,2)', '[1,2)'))
    add('singlelist.expect', lambda: m.SingleListGrader(subgrader=m.StringGrader())('a, b; c', 'a, b; c'))
    add('userfn.arity', lambda: m.FormulaGrader(answers='h(1,2)', user_functions={'h': lambda x, y: x + y})(
        None, 'h(2,1)'))
    # class-level scopes of the math graders: metric suffixes are off unless asked for,
    # constants and functions are the documented defaults
    add('suffix.formula.off', lambda: m.FormulaGrader(answers='2000')(None, '2k'))
    add('suffix.numerical.off', lambda: m.NumericalGrader(answers='0.002')(None, '2m'))
    add('suffix.matrix.off', lambda: m.MatrixGrader(answers='2000')(None, '2k'))
    add('suffix.sum.off', lambda: m.SumGrader(
        answers={'lower': '1', 'upper': '2', 'summand': 'n', 'summation_variable': 'n'})(
            None, ['1', '2', 'n+0k', 'n']))
    add('suffix.formula.on', lambda: m.FormulaGrader(answers='2000', metric_suffixes=True)(None, '2k'))
    add('consts.formula', lambda: m.FormulaGrader(answers='1')(None, 'infty'))
    add('consts.numerical.I', lambda: m.NumericalGrader(answers='1')(None, 'I'))
    add('consts.sum.infty', lambda: m.SumGrader(
        answers={'lower': '1', 'upper': 'infty', 'summand': '2^(-n)', 'summation_variable': 'n'},
        infty_val=40)(None, ['1', 'infty', '2^(-n)', 'n']))
    add('funcs.formula.user_missing', lambda: m.FormulaGrader(answers='1')(None, 'f(1)'))
    add('funcs.numerical.trans', lambda: m.NumericalGrader(answers='1')(None, 'trans(1)'))
    return out


def parser_agreement(strings):
    """
    For every string the run touched: the shared parser and a freshly constructed
    MathParser must agree on the outcome (name sets or error).
    Returns a list of (string, shared outcome, fresh outcome) that disagree.
    """
    lib = load_lib()
    calc = __import__('mitxgraders.helpers.calc', fromlist=['x'])
    fresh = lib.expressions.MathParser()
    bad = []

    def names(parser_parse, s):
        p = parser_parse(s)
        return {'v': sorted(p.variables_used), 'f': sorted(p.functions_used),
                's': sorted(p.suffixes_used)}

    MA = lib.math_array.MathArray
    funcs = dict(calc.DEFAULT_FUNCTIONS)
    funcs.update(lib.mathfuncs.ARRAY_ONLY_FUNCTIONS)

    def ev_shared(s):
        return canon(calc.evaluator(s, calc.DEFAULT_VARIABLES, funcs, calc.DEFAULT_SUFFIXES)[0])

    def ev_fresh(s):
        t = s.strip()
        if t == '':
            return canon(float('nan'))
        return canon(fresh.parse(t).eval(calc.DEFAULT_VARIABLES, funcs, calc.DEFAULT_SUFFIXES)[0])

    for s in strings:
        if not isinstance(s, str) or len(s) > 300:
            continue
        a = outcome(names, calc.parse, s)
        b = outcome(names, fresh.parse, s)
        if a != b:
            bad.append([s, a, b])
            continue
        if a['k'] != 'ret' or a['v']['v'] or len(s) > 120:
            continue
        # a string without variables: its value under the default scope must not depend on what
        # was evaluated before, with negative matrix powers enabled and disabled
        for flag in (True, False):
            with MA.enable_negative_powers(flag):
                va = outcome(ev_shared, s)
                vb = outcome(ev_fresh, s)
            if va != vb:
                bad.append([s + ('' if flag else '   [negative powers disabled]'), va, vb])
                break
    return bad
