"""
gradesim.gen.hostile -- hostile student submissions (C02 palettes).

Formulas pushed outside function domains (poles, overflow, 0/0, complex where real is
expected), shape-incompatible array expressions, unbalanced and deeply nested brackets,
unknown names, wrong arities, blank list items, stray delimiters, non-ASCII digits /
operators / whitespace.  Pure data; drawn from the run's PRNG.
"""

GENERIC = ['', ' ', '\t', '\n', '\r\n', '\x00', 'a' * 400, '"', "'", '\\', '<b>x</b>', '&lt;', '{}', '{0}',
           '%s', '%(x)s', '{x', 'None', 'nan', 'inf', '-inf', 'NaN', 'null', '0x10', '1_000', '١٢٣', '１２３',
           'x²', '２＋２', 'π', '∞', 'x−y', 'x + y', 'x·y', '√2', '​x', 'x—y', 'x–y', '½',
           'é', '😀', 'x́', '﻿x', 'x y', '﹢', '＊', '÷', '×']

FORMULA = ['1/(x-x)', 'ln(x-x)', 'tan(pi/2)', '0/0', '(x-x)/(x-x)', 'arcsin(x+10)', 'sqrt(-x)', '10^10^10',
           'exp(exp(exp(x*10)))', 'x^(1/0)', '0^-1', 'fact(-1)', 'fact(x)', 'factorial(170.5)', 'fact(3)',
           'log10(0)', 'log2(-1)', 'arctan2(0,0)', 'cot(0)', 'sec(pi/2)', 'csc(0)', 'arccoth(1)',
           'arcsech(0)', 'arccsc(0)', 'arccot(0)', 'arctanh(1)', '(-8)^(1/3)', '1e400', '1e-400', '.',
           '1.2.3', '1e', 'e1', '1e+', '--x', 'x!', 'abs()', 'min()', 'max(1)', 'min(1,2,3)', 'sin(1,2)',
           'sin(', 'sin)', 'sin', 'sin sin', 'sin(sin)', 're(x', 'kronecker(1)', 'kronecker(1,2,3)',
           'cross(1,2)', 'cross([1,2,3],[1,2])', 'norm(1)', 'trans(1)', 'det([1,2])',
           'det([[1,2],[3,4],[5,6]])', 'ctrans(x)', 'adj([1])', 'trace(5)', 'conj([1,2])', 'im(x)+re',
           'i^i^i^i', '(1+i)^(1e3)', '(1+i)^(1e300)', 'x_{', 'x_{1}^{', "x'''''", 'x_', '_x', '2x', 'x2',
           '2 x', 'x y', '%', '5%%', '5 %', 'k', '5kk', 'floor(1e300)', 'ceil(i)', 'floor(i)',
           'max(i,1)', 'min(i,2)', 'arctan2(i,1)', 'abs(i)', 'sqrt(i)', 'ln(-1)', 'ln(i)', 'exp(1000)',
           'exp(-1000)', 'sinh(1000)', 'cosh(-1000)', 'tanh(1000)', '2^1024', '2^-1075', '0^0', '0^i',
           '(-1)^0.5', '(-1)^(1/2)', 'x^x^x^x', 'x||0', '0||0', '1||-1', 'x||(x-x)', '1/(1||-1)',
           'x+-y', 'x+*y', '(x)(y)', 'x(y)', 'f(x)', 'sin^2(x)', 'sin x', 'sin[x]', 'sin{x}', 'x==y',
           'x=1', 'x;y', 'x,y', 'lambda: 1', '__import__("os")', 'x if x else y', '1 if 1 else 0',
           '9' * 400, '0.' + '0' * 400 + '1', '1' + '0' * 308, '1e308*10', '-1e308*10', '1e308-1e308',
           'pi^pi^pi^pi', 'e^e^e^e', 'infty', 'infty-infty', '0*infty', 'infty/infty']

ARRAY = ['[1,2]+[1,2,3]', '[1,2]*[[1,2,3]]', '[[1,2],[3,4]]^0.5', '[[1,2],[3,4]]^[1,2]', '[1,2]^2',
         '[[1,1],[1,1]]^-1', '2^[1,2]', '[1,[2,3]]', '[[1,2],[3]]', '[]', '[[]]', '[,]', '[1,]', '1+[1,2]',
         '[1,2]/[1,2]', '1/[1,2]', '[1,2]*[1,2]*[1,2]', '[[[1,2],[3,4]],[[1,2],[3,4]]]*[1,2]',
         '[[[1,2],[3,4]],[[1,2],[3,4]]]', '[[1,2],[3,4]]*[1,2,3]', '[[1,2],[3,4]]+1', '[[1,2],[3,4]]^-1.5',
         '[[1,2],[3,4]]^(1e30)', '[[1,2],[3,4]]^1000', '[[1e200,0],[0,1e200]]^2', '[[0,0],[0,0]]^-1',
         'det([[1,2],[3,4]])^-1', 'trans([[1,2],[3,4]])*[1]', 'A^-1', 'A^A', 'A*v*v', 'v*A', 'v*v*v', 'A/A',
         'A+v', 'A^0.5', 'A^i', 'norm(A)*v/0', 'cross(v,v)', 'cross([1,2,3],[4,5,6])*A', 'A^-1*0', 'I', 'A*I',
         '[A,A]', '[v,v]', '[[v]]', 'sin(A)', 'sqrt(v)', 'abs(A)', 'A%', '[1,2', '1,2]', '[1;2]', '[[1,2][3,4]]']

DELIMS = [',', ',,', 'a,', ',a', 'a,,b', 'a;b', ';', 'a; ;b', ' , ', ',,,,', 'a, b, c, d, e, f, g, h',
          'a|b', '|', 'a,b;c', 'a;b,c;', ';,;', 'a,\n,b', 'a,\tb']

INTERVAL = ['[', ']', '[]', '[,]', '(,)', '[1,2]]', '[[1,2]', '[1 2]', '[1,2,3]', '1,2', '[a,b]', '[1,2)x',
            '[1,2', '1,2)', '[1;2]', '[ ,2]', '[1, ]', '[1/0,2]', '[1,infty)', '(-infty,infty)', '[x,y]',
            '[[1,2],3]', '[1,[2,3]]', '(1,2]]]]', '[((1),2)', '⟨1,2⟩', '［1,2］', '[1,2）', '{1,2}', '<1,2>',
            '[1e400,2]', '[i,2]', '[1,2)' * 3, '[' * 40 + '1,2' + ']' * 40]


def deep(rng):
    k = rng.choice([10, 25, 40, 60, 120, 400])
    form = rng.randrange(5)
    if form == 0:
        return '(' * k + 'x' + ')' * k
    if form == 1:
        return '[' * k + '1' + ']' * k
    if form == 2:
        return 'sin(' * k + 'x' + ')' * k
    if form == 3:
        return '(' * k + 'x'
    return '-' .join(['x'] * k) + '^' + '^'.join(['2'] * min(k, 30))


def hostile_text(rng, cls):
    r = rng.random()
    if r < 0.15:
        return rng.choice(GENERIC)
    if r < 0.25:
        return deep(rng)
    if cls in ('FormulaGrader', 'NumericalGrader'):
        pool = FORMULA if rng.random() < 0.8 else ARRAY
    elif cls == 'MatrixGrader':
        pool = ARRAY if rng.random() < 0.7 else FORMULA
    elif cls == 'IntervalGrader':
        pool = INTERVAL if rng.random() < 0.7 else FORMULA
    elif cls == 'SingleListGrader':
        pool = DELIMS if rng.random() < 0.6 else FORMULA + GENERIC
    else:
        pool = GENERIC + DELIMS + FORMULA[:20]
    return rng.choice(pool)


def hostile_input(rng, tp, base):
    cls = tp['bp']['cls']
    if tp['kind'] == 'text':
        h = hostile_text(rng, cls)
        if isinstance(base, str) and rng.random() < 0.25:
            # embed into an otherwise sensible submission
            joiner = rng.choice(['+', '*', ',', ' ', '', '/', '^', ';'])
            return base + joiner + h if rng.random() < 0.5 else h + joiner + base
        return h
    # list graders: hostile strings in some boxes
    if not isinstance(base, list) or not all(isinstance(b, str) for b in base):
        base = list(tp['pal']['right'][0])
    out = list(base)
    n = rng.randint(1, max(1, len(out)))
    for _ in range(n):
        k = rng.randrange(len(out)) if out else 0
        if out:
            out[k] = hostile_text(rng, 'FormulaGrader' if cls == 'SumGrader' else cls)
    return out
