"""
gradesim.gen.formulas -- derivation generator for expression strings with ground truth.

Every generated string comes with, *by construction*, either the exact sets of variable
names, function names and number suffixes that occur in it, or the error class a parser
must raise for it.  Strings are built from token lists so that whitespace variants
(which must not change anything) can be rendered from the same derivation.

Grammar facts used (mitxgraders/helpers/calc/expressions.py, documented in docs/):
  precedence  sum < product < parallel(||) < negation < power < atom
  one optional unary minus per operand; one optional minus after '^'; optional leading '+'
  numbers: 1 | 1.5 | 1. | .5, optional exponent e[+-]d, optional suffix (letters or %)
  names:   letter alnum* [ _alnum... | _{[-]alnum} ^{[-]alnum} ] '*
  a name directly followed by '(' is a function
  all spaces are removed before parsing
"""

VAR_POOL = ['x', 'y', 'z', 'x1', 'x_1', 'x_{1}', "x'", "x''", 'xy', 'sin', 'sinx', 'cosx', 'e', 'E',
            'T_{ab}^{c}', 'a_{-1}', 'k', 'M', 'pi', 'i', 'j', 'in', 'alpha_beta', 'z_{12}^{-3}', 'fx',
            "f'", 'abs1', 'f', 'g', 'T^{2}', 'x_a_1', 'X', 'cos', 'm', 'mu', 'x_{1}^{1}', "y_2'"]
FUNC_POOL = ['sin', 'cos', 'f', 'g', "f'", 'f_1', 'sqrt', 'x', 'k', 'exp', 'T_{a}', 'fx', 'max',
             'sinx', "g''", 'F', 'x_{1}', 'e', 'abs1']
SUFFIX_POOL = ['k', '%', 'm', 'M', 'mu', 'x', 'kk', 'G', 'pi', 'sin', 'f']

LEVEL = {'sum': 1, 'product': 2, 'parallel': 3, 'negation': 4, 'power': 5, 'atom': 6}


class Node(object):
    def __init__(self, level, tokens, v=(), f=(), s=()):
        self.level = level
        self.tokens = tokens           # list of (text, kind)
        self.v = set(v)
        self.f = set(f)
        self.s = set(s)

    def merge(self, *others):
        for o in others:
            self.v |= o.v
            self.f |= o.f
            self.s |= o.s
        return self


def paren(node):
    n = Node(6, [('(', '(')] + node.tokens + [(')', ')')])
    return n.merge(node)


def need(node, level):
    return node if node.level >= level else paren(node)


def gen_number(rng, suffix_p=0.3):
    form = rng.randrange(6)
    if form == 0:
        text = str(rng.randint(0, 99))
    elif form == 1:
        text = '%d.%d' % (rng.randint(0, 9), rng.randint(0, 99))
    elif form == 2:
        text = '%d.' % rng.randint(1, 9)
    elif form == 3:
        text = '.%d' % rng.randint(1, 99)
    elif form == 4:
        text = '%de%s%d' % (rng.randint(1, 9), rng.choice(['', '+', '-']), rng.randint(0, 3))
    else:
        text = '%d.%dE%d' % (rng.randint(1, 9), rng.randint(0, 9), rng.randint(0, 2))
    node = Node(6, [], s=())
    if rng.random() < suffix_p:
        suf = rng.choice(SUFFIX_POOL)
        text += suf
        node.s.add(suf)
    node.tokens = [(text, 'num')]
    return node


def gen_atom(rng, depth, pools):
    r = rng.random()
    if depth <= 0:
        r = r * 0.55
    if r < 0.25:
        return gen_number(rng, pools.get('suffix_p', 0.3))
    if r < 0.55:
        name = rng.choice(pools['vars'])
        return Node(6, [(name, 'var')], v=[name])
    if r < 0.78:
        name = rng.choice(pools['funcs'])
        nargs = rng.choice([1, 1, 1, 2, 3])
        node = Node(6, [(name, 'func'), ('(', '(')], f=[name])
        for k in range(nargs):
            if k:
                node.tokens.append((',', ','))
            arg = gen_expr(rng, depth - 1, pools, allow_plus=True)
            node.tokens += arg.tokens
            node.merge(arg)
        node.tokens.append((')', ')'))
        return node
    if r < 0.9:
        return paren(gen_expr(rng, depth - 1, pools, allow_plus=True))
    # array literal: vector or matrix
    node = Node(6, [('[', '[')])
    if rng.random() < 0.7:
        n = rng.randint(1, 3)
        for k in range(n):
            if k:
                node.tokens.append((',', ','))
            el = gen_expr(rng, depth - 2, pools, allow_plus=True)
            node.tokens += el.tokens
            node.merge(el)
    else:
        rows, cols = rng.randint(1, 2), rng.randint(1, 2)
        for a in range(rows):
            if a:
                node.tokens.append((',', ','))
            node.tokens.append(('[', '['))
            for b in range(cols):
                if b:
                    node.tokens.append((',', ','))
                el = gen_expr(rng, depth - 2, pools)
                node.tokens += el.tokens
                node.merge(el)
            node.tokens.append((']', ']'))
    node.tokens.append((']', ']'))
    return node


def gen_expr(rng, depth, pools, allow_plus=False):
    if depth <= 0 or rng.random() < 0.3:
        node = gen_atom(rng, depth, pools)
    else:
        kind = rng.choice(['sum', 'sum', 'product', 'product', 'parallel', 'negation', 'power', 'power'])
        if kind == 'sum':
            n = rng.randint(2, 3)
            node = Node(1, [])
            for k in range(n):
                child = need(gen_expr(rng, depth - 1, pools), 2)
                if k:
                    node.tokens.append((rng.choice(['+', '-']), 'op'))
                node.tokens += child.tokens
                node.merge(child)
        elif kind == 'product':
            n = rng.randint(2, 3)
            node = Node(2, [])
            for k in range(n):
                child = need(gen_expr(rng, depth - 1, pools), 3)
                if k:
                    node.tokens.append((rng.choice(['*', '/']), 'op'))
                node.tokens += child.tokens
                node.merge(child)
        elif kind == 'parallel':
            node = Node(3, [])
            for k in range(2):
                child = need(gen_expr(rng, depth - 1, pools), 4)
                if k:
                    node.tokens.append(('||', 'op'))
                node.tokens += child.tokens
                node.merge(child)
        elif kind == 'negation':
            child = need(gen_expr(rng, depth - 1, pools), 5)
            node = Node(4, [(rng.choice(['-', '-', '—']), 'uminus')] + child.tokens).merge(child)
        else:
            n = rng.randint(2, 3)
            node = Node(5, [])
            for k in range(n):
                child = need(gen_expr(rng, depth - 1, pools), 6)
                if k:
                    node.tokens.append(('^', 'op'))
                    if rng.random() < 0.3:
                        node.tokens.append(('-', 'uminus'))
                node.tokens += child.tokens
                node.merge(child)
    if allow_plus and rng.random() < 0.08 and node.level >= 2:
        node = Node(1, [('+', 'lead')] + node.tokens).merge(node)
    return node


def render(tokens, rng=None, style='tight'):
    """tight: no whitespace. spaced: single spaces between tokens. wild: random spaces/tabs/newlines."""
    if style == 'tight' or rng is None:
        return ''.join(t for t, _ in tokens)
    if style == 'spaced':
        return ' '.join(t for t, _ in tokens)
    out = []
    for k, (t, kind) in enumerate(tokens):
        out.append(t)
        if k + 1 < len(tokens):
            nxt = tokens[k + 1][0]
            if t == '|' or (t == '||'):
                pass
            r = rng.random()
            if r < 0.35:
                out.append(' ' * rng.randint(1, 3))
            elif r < 0.42 and style == 'wild':
                # tabs and line breaks between tokens are skipped by the tokenizer
                # (not where a function name meets its parenthesis: keep that adjacent or spaced)
                if not (kind == 'func' and nxt == '('):
                    out.append(rng.choice(['\t', '\n', ' \t ']))
    return ''.join(out)


SPECIALS = [
    # hand-written corner cases with known truth (suffix letters next to e-exponents, names vs suffixes)
    ('2e', {'v': [], 'f': [], 's': ['e']}),
    ('2e+x', {'v': ['x'], 'f': [], 's': ['e']}),
    ('2e+3', {'v': [], 'f': [], 's': []}),
    ('2E5k', {'v': [], 'f': [], 's': ['k']}),
    ('2e3e', {'v': [], 'f': [], 's': ['e']}),
    ('5%', {'v': [], 'f': [], 's': ['%']}),
    ('5%*x', {'v': ['x'], 'f': [], 's': ['%']}),
    ('2 k', {'v': [], 'f': [], 's': ['k']}),
    ('x y', {'v': ['xy'], 'f': [], 's': []}),
    ('sin + sin(sin)', {'v': ['sin'], 'f': ['sin'], 's': []}),
    ('f(f)+f', {'v': ['f'], 'f': ['f'], 's': []}),
    ('x^2k', {'v': ['x'], 'f': [], 's': ['k']}),
    ('[x, [y]]', {'v': ['x', 'y'], 'f': [], 's': []}),
    ('2^-x^-y', {'v': ['x', 'y'], 'f': [], 's': []}),
    ("f'(x')", {'v': ["x'"], 'f': ["f'"], 's': []}),
    ('T_{a}^{b}(T_{a}^{b})', {'v': ['T_{a}^{b}'], 'f': ['T_{a}^{b}'], 's': []}),
    ('a_{-1}^{-2}', {'v': ['a_{-1}^{-2}'], 'f': [], 's': []}),
    ('x_1_2', {'v': ['x_1_2'], 'f': [], 's': []}),
    ('-x', {'v': ['x'], 'f': [], 's': []}),
    ('+x', {'v': ['x'], 'f': [], 's': []}),
    ('x--y', {'v': ['x', 'y'], 'f': [], 's': []}),
    ('x*-y', {'v': ['x', 'y'], 'f': [], 's': []}),
    ('1||2||x', {'v': ['x'], 'f': [], 's': []}),
    ('e^(i*pi)', {'v': ['e', 'i', 'pi'], 'f': [], 's': []}),
    ('1.e1x', {'v': [], 'f': [], 's': ['x']}),
    ('.5.', None),
    ('x**y', None),
    ('x+', None),
    ('()', None),
    ('f()', None),
    ('[]', None),
    ('2(x)', None),
    ('(x)(y)', None),
    ('x,y', None),
    ('x$', None),
    ('x=y', None),
    ('--x', None),
    ('x^--y', None),
    ('x|y', None),
    ('x_{a', 'UnbalancedBrackets'),
    ('(x', 'UnbalancedBrackets'),
    ('x)', 'UnbalancedBrackets'),
    ('[x)', 'UnbalancedBrackets'),
    ('f(x]]', 'UnbalancedBrackets'),
]

FOREIGN = ['$', '#', '&', '=', '~', '@', '!', ';', '"', '\\', '?', ':', '<', '>']
BAD_AFTER_OP = ['*', '/', '^', '+']


def mutate_invalid(rng, tokens):
    """
    One mutation of a valid token list that makes it invalid for certain.
    Returns (tokens, expected error class name).
    """
    toks = list(tokens)
    ops = [k for k, (t, kind) in enumerate(toks) if kind == 'op']
    closers = [k for k, (t, kind) in enumerate(toks) if t in (')', ']')]
    choice = rng.randrange(8)
    if choice == 0 or (choice in (1,) and not ops) or (choice in (3,) and not closers):
        toks.append((rng.choice(['+', '*', '/', '^', '||', '-']), 'op'))
        return toks, 'UnableToParse'
    if choice == 1:
        k = rng.choice(ops)
        toks.insert(k + 1, (rng.choice(BAD_AFTER_OP), 'op'))
        return toks, 'UnableToParse'
    if choice == 2:
        toks += [(rng.choice(['+', '*']), 'op'), ('(', '('), (')', ')')]
        return toks, 'UnableToParse'
    if choice == 3:
        k = rng.choice(closers)
        del toks[k]
        return toks, 'UnbalancedBrackets'
    if choice == 4:
        toks.append((rng.choice([')', ']', '}']), ')'))
        return toks, 'UnbalancedBrackets'
    if choice == 5:
        k = rng.randrange(len(toks) + 1)
        # a foreign character between two tokens or at either end
        toks.insert(k, (rng.choice(FOREIGN), 'foreign'))
        return toks, 'UnableToParse'
    if choice == 6:
        toks = [('(', '(')] + toks + [(')', ')'), ('(', '('), ('1', 'num'), (')', ')')]
        return toks, 'UnableToParse'
    toks = toks + [(',', ','), ('1', 'num')]
    return toks, 'UnableToParse'


def split_inside_token(rng, tokens):
    """
    A tab / line break / no-break space *inside* a name or a number: only plain spaces are
    removed before parsing, so this is two adjacent atoms and must be refused -- although it
    differs from a valid string only by whitespace (a cache key that normalises more than
    spaces would collide with it).  Returns the text or None.
    """
    import re as _re
    cands = []
    for k, (t, kind) in enumerate(tokens):
        if kind in ('var', 'func') and len(t) >= 2:
            cands.append((k, rng.randrange(1, len(t))))
        elif kind == 'num' and _re.match(r'\d\d', t):
            cands.append((k, 1))
    if not cands:
        return None
    k, pos = rng.choice(cands)
    ws = rng.choice(['\t', '\n', '\xa0', '\r', ' \t'])
    out = []
    for idx, (t, kind) in enumerate(tokens):
        out.append(t[:pos] + ws + t[pos:] if idx == k else t)
    return ''.join(out)


def make_alphabet(rng, size=12, depth=3):
    """
    A small alphabet of strings for one run: confusable names, valid and malformed strings,
    whitespace variants that collide on or miss the cache key.
    Each entry: {'texts': [variants], 'truth': {...} | None, 'err': class name | None}
    """
    nv, nf = rng.randint(2, 6), rng.randint(1, 4)
    pools = {'vars': rng.sample(VAR_POOL, nv), 'funcs': rng.sample(FUNC_POOL, nf),
             'suffix_p': rng.choice([0.0, 0.2, 0.5])}
    # make collisions likely: a variable named like one of the functions
    if rng.random() < 0.5:
        pools['vars'].append(rng.choice(pools['funcs']))
    out = []
    while len(out) < size:
        r = rng.random()
        if r < 0.2:
            text, truth = rng.choice(SPECIALS)
            if truth is None:
                ent = {'texts': [text], 'truth': None, 'err': 'UnableToParse'}
            elif isinstance(truth, str):
                ent = {'texts': [text], 'truth': None, 'err': truth}
            else:
                ent = {'texts': [text], 'truth': truth, 'err': None}
            out.append(ent)
            continue
        d = rng.choice([0, 1, 2, depth])
        node = gen_expr(rng, d, pools, allow_plus=True)
        if r < 0.28:
            # deep nesting
            k = rng.randint(5, 22)
            node = Node(6, [('(', '(')] * k + node.tokens + [(')', ')')] * k).merge(node)
        if r < 0.55 and out and rng.random() < 0.5:
            # a mutation of an earlier valid string (shares names and prefixes with it)
            pass
        if rng.random() < 0.3:
            toks, err = mutate_invalid(rng, node.tokens)
            texts = [render(toks)]
            if rng.random() < 0.5:
                texts.append(render(toks, rng, 'spaced'))
            out.append({'texts': texts, 'truth': None, 'err': err})
            if rng.random() < 0.6 and len(out) < size:
                # keep the valid original too: its names were seen by the failed parse
                out.append({'texts': [render(node.tokens)],
                            'truth': {'v': sorted(node.v), 'f': sorted(node.f), 's': sorted(node.s)},
                            'err': None})
            continue
        texts = [render(node.tokens)]
        for style in ('spaced', 'loose', 'wild'):
            if rng.random() < 0.5:
                texts.append(render(node.tokens, rng, style))
        out.append({'texts': texts,
                    'truth': {'v': sorted(node.v), 'f': sorted(node.f), 's': sorted(node.s)},
                    'err': None})
        if rng.random() < 0.25 and len(out) < size:
            broken = split_inside_token(rng, node.tokens)
            if broken is not None:
                out.append({'texts': [broken], 'truth': None, 'err': 'UnableToParse'})
    return out
