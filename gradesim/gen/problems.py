"""
gradesim.gen.problems -- catalogue of tenant problems (pure data, generated from a PRNG).

Every template returns a dict:
  bp          blueprint (see gradesim.blueprints)
  configured  True when answers are configured (expect is ignored)
  kind        'text' | 'list'
  n           number of inputs for list graders
  pal         {'right': [...], 'wrong': [...], 'malformed': [...]}  pools of submissions
  expects     {'valid': [...], 'invalid': [...]}  (unconfigured graders only; validity of an expect
              is known by construction: 'invalid' ones are refused at inference)
  targets     stubs that can carry F1/F2/F6 faults: [{'name':..., 'n': typical invocations per call,
              'where': 'fn'|'cmp'|'sampler'|'sub'}]
  depth       grader nesting depth (for the F3 floor)
  debug       the debug flag of the top-level grader
  matrix      True for MatrixGrader tenants (candidates for negative-power probes)
"""
from gradesim.core import T


def pick(rng, seq):
    return seq[rng.randrange(len(seq))]


def maybe(rng, p):
    return rng.random() < p


def common_opts(rng, cfg, debug_p=0.25, item=True):
    if maybe(rng, debug_p):
        cfg['debug'] = True
    if item and maybe(rng, 0.2):
        cfg['wrong_msg'] = pick(rng, ['Try again', 'Nope.\nLook at the units'])
    return cfg


def answers_of(rng, rights, partial=None, allow_forms=True):
    """Author's answers in one of the documented forms."""
    form = rng.randrange(6) if allow_forms else 0
    main = rights[0]
    if form == 5 and partial:
        # a known wrong answer worth nothing, listed for its hint
        return T({'expect': partial, 'grade_decimal': 0, 'msg': pick(rng, ['common mistake', 'hint:\nre-read part b'])},
                 main)
    if form == 0:
        return main
    if form == 1:
        return {'expect': main, 'msg': pick(rng, ['', 'Well done', 'line1\nline2'])}
    if form == 2 and partial:
        return T({'expect': main, 'grade_decimal': 1},
                 {'expect': partial, 'grade_decimal': pick(rng, [0.5, 0.25, 1.0 / 3, 0.1]),
                  'msg': pick(rng, ['', 'close', 'partly\nright'])})
    if form == 3 and len(rights) > 1:
        return {'expect': T(*rights[:2]), 'ok': pick(rng, [True, 'partial', 'computed', False])}
    if form == 4 and partial:
        return T(main, {'expect': partial, 'grade_decimal': 0.5, 'ok': 'partial'})
    return main


# ---------------------------------------------------------------------------
def t_string(rng, gid, configured=None):
    configured = maybe(rng, 0.5) if configured is None else configured
    cfg = {}
    for flag in ('case_sensitive', 'strip', 'clean_spaces', 'strip_all'):
        if maybe(rng, 0.25):
            cfg[flag] = maybe(rng, 0.5)
    common_opts(rng, cfg)
    mode = rng.randrange(6)
    pal = {'right': ['cat', ' cat', 'cat '], 'wrong': ['dog', '', 'c at', 'Caté'],
           'malformed': []}
    expects = {'valid': ['cat', 'dog', 'a b'], 'invalid': []}
    if mode == 0:
        configured = False
        cfg['accept_any'] = True
        cfg['min_length'] = pick(rng, [0, 3, 10])
        cfg['explain_minimums'] = pick(rng, ['err', 'msg', None])
        pal = {'right': ['anything goes', 'x'], 'wrong': ['', 'ab'], 'malformed': []}
        kind_model = 'accept_any'
    elif mode == 1:
        cfg['validation_pattern'] = pick(rng, ['[a-z ]+', r'\w+', '(cat|dog)'])
        cfg['explain_validation'] = pick(rng, ['err', 'msg', None])
        pal['malformed'] = ['c@t!', '123 456', 'cat\tdog']
        expects = {'valid': ['cat', 'dog'], 'invalid': []}
        kind_model = 'plain'
    else:
        kind_model = 'plain'
    if configured and kind_model == 'plain':
        cfg['answers'] = answers_of(rng, ['cat', 'kitty'], partial='dog')
    return {'bp': {'id': gid, 'cls': 'StringGrader', 'cfg': cfg}, 'configured': configured or kind_model == 'accept_any',
            'infers': kind_model == 'accept_any',
            'kind': 'text', 'pal': pal, 'expects': expects, 'targets': [], 'depth': 0,
            'debug': bool(cfg.get('debug'))}


FORMULA_SETS = [
    # (variables, answer, rights, wrongs, partial, other valid expects)
    (['x', 'y'], 'x^2+2*y', ['x*x+y+y', '2*y+x^2', '(x^2 + 2*y)'], ['x^2+y', 'x+2*y', '0'], 'x^2+y',
     ['x+y', 'x*y']),
    (['m', 'c'], 'm*c^2', ['c*c*m', 'm*c*c', 'c^2*m'], ['m*c', 'm+c^2', 'm*c^3'], 'm*c', ['m+c', 'm/c']),
    (['a', 'b'], 'sin(a)*cos(b)', ['cos(b)*sin(a)', 'sin(a)*cos(b)+0'], ['sin(b)*cos(a)', 'a*b'],
     'sin(a)', ['a-b', 'a^b']),
    (['t'], 'exp(-t)/(1+t)', ['1/(exp(t)*(1+t))', 'e^(-t)/(t+1)'], ['exp(t)/(1+t)', 't'], 'exp(-t)',
     ['2*t', 't^3']),
]

FORMULA_MALFORMED = ['x+', '(x', 'x^', 'foo(x)', '1/0', 'x^^2', '2 x', 'x)', '[1,2', 'sin()', '5 5',
                     'x_{1', 'ln(0)', '2^2000^2', 'arcsin(5)^0.5*0', 'x +* y', '∞', 'x²']


def sample_from_for(rng, variables, gid, sim_p=0.2):
    sf = {}
    for v in variables:
        r = rng.random()
        if r < 0.35:
            continue
        if r < 0.55:
            sf[v] = [1, pick(rng, [2, 3, 5])]
        elif r < 0.7:
            sf[v] = {'__obj__': {'cls': 'RealInterval', 'cfg': [pick(rng, [0.5, 1, 2]), 4]}}
        elif r < 0.8:
            sf[v] = {'__obj__': {'cls': 'IntegerRange', 'cfg': [1, 6]}}
        elif r < 0.9:
            sf[v] = T(1.5, 2.5, 3.5)
        else:
            sf[v] = {'__obj__': {'cls': 'ComplexRectangle', 'cfg': {'re': [1, 2], 'im': [1, 2]}}}
    return sf


def t_formula(rng, gid, configured=None, cls='FormulaGrader'):
    configured = maybe(rng, 0.6) if configured is None else configured
    variables, answer, rights, wrongs, partial, others = pick(rng, FORMULA_SETS)
    cfg = {'variables': list(variables)}
    common_opts(rng, cfg)
    sf = sample_from_for(rng, variables, gid)
    if sf:
        cfg['sample_from'] = sf
    if maybe(rng, 0.3):
        cfg['samples'] = pick(rng, [1, 2, 3, 8])
    if maybe(rng, 0.2):
        cfg['failable_evals'] = pick(rng, [1, 2])
    if maybe(rng, 0.25):
        cfg['tolerance'] = pick(rng, ['1%', 0.001, 0, '0%'])
    if maybe(rng, 0.12):
        cfg['metric_suffixes'] = True
    targets = []
    if maybe(rng, 0.15):
        # an author-defined sampling set (official extension point) for one variable
        stub = gid + '.smp'
        cfg.setdefault('sample_from', {})[variables[-1]] = {
            '__sim__': {'cls': 'SimSampler', 'cfg': {'name': stub, 'mode': 'rng', 'lo': 1.0, 'hi': 3.0}}}
        targets.append({'name': stub, 'n': cfg.get('samples', 5), 'where': 'sampler'})
    pal = {'right': [answer] + rights, 'wrong': list(wrongs) + ['', '   '],
           'malformed': [s.replace('x', variables[0]) for s in FORMULA_MALFORMED]}
    r = rng.random()
    if r < 0.35:
        fname = pick(rng, ['f', 'g', 'sq'])
        stub = gid + '.' + fname
        v0 = variables[0]
        if maybe(rng, 0.35):
            # a two-argument user function
            cfg['user_functions'] = {fname: {'__fn__': {'name': stub, 'kind': 'sum', 'arity': 2}}}
            call = '%s(%s,1)' % (fname, v0)
            bad_arity = '%s(%s)' % (fname, v0)
        else:
            cfg['user_functions'] = {fname: {'__fn__': {'name': stub, 'kind': 'square', 'arity': 1,
                                                        'nin': maybe(rng, 0.3)}}}
            call = '%s(%s)' % (fname, v0)
            bad_arity = '%s(%s,%s)' % (fname, v0, v0)
        answer = '%s+%s' % (answer, call)
        pal['right'] = ['%s + %s' % (x, call) for x in rights] + [answer]
        pal['wrong'] = ['%s + %s' % (rights[0], call.replace(v0, '2*' + v0, 1))] + wrongs
        pal['malformed'] += [bad_arity, '%s()' % fname, fname]
        partial = '%s+%s' % (partial, call)
        others = others + [call]
        targets.append({'name': stub, 'n': 2 * cfg.get('samples', 5), 'where': 'fn'})
    elif r < 0.45:
        cfg['user_functions'] = {'h': {'__obj__': {'cls': 'RandomFunction', 'cfg': {}}}}
        v0 = variables[0]
        answer = '%s*h(%s)' % (answer, v0)
        pal['right'] = ['h(%s)*(%s)' % (v0, x) for x in rights]
        pal['wrong'] = ['h(%s)' % v0] + wrongs
        partial = None
        others = others + ['h(%s)' % v0]
    elif r < 0.55:
        cfg['blacklist'] = ['sin', 'cos']
        pal['malformed'] += ['%s+sin(0)' % rights[0]]
    elif r < 0.62:
        cfg['whitelist'] = pick(rng, [['sin', 'cos', 'exp'], [None]])
        pal['malformed'] += ['%s+tan(0)' % rights[0]]
    elif r < 0.7:
        cfg['forbidden_strings'] = ['+0', '*1']
        pal['malformed'] += ['%s+0' % rights[0], '(%s)*1' % rights[0]]
    elif r < 0.78:
        cfg['numbered_vars'] = ['q']
        answer = '%s+q_{1}' % answer
        pal['right'] = ['q_{1}+%s' % x for x in rights]
        pal['wrong'] = ['q_{2}+%s' % rights[0]] + wrongs
        pal['malformed'] += ['q_{01}+%s' % rights[0], 'q+%s' % rights[0]]
        partial = None
        others = others + ['q_{3}']
    elif r < 0.86:
        v0 = variables[0]
        cfg['variables'] = list(variables) + ['dd']
        cfg.setdefault('sample_from', {})['dd'] = {
            '__obj__': {'cls': 'DependentSampler', 'cfg': {'formula': '2*%s+1' % v0}}}
        answer = '%s+dd' % answer
        pal['right'] = ['%s+2*%s+1' % (x, v0) for x in rights] + [answer]
        partial = None
        others = others + ['dd']
    if cls == 'FormulaGrader' and r >= 0.86 and maybe(rng, 0.6):
        # a vector-valued answer in a plain FormulaGrader (max_array_dim=1): a scalar or
        # wrong-length submission is a shape error inside the comparison itself
        v0 = variables[0]
        cfg['max_array_dim'] = 1
        answer = '[%s, 2*%s, 1]' % (v0, v0)
        pal['right'] = [answer, '[%s, %s+%s, 1]' % (v0, v0, v0)]
        pal['wrong'] = ['[%s, %s, 1]' % (v0, v0), '[0, 0, 0]']
        pal['malformed'] = ['7', v0, '[%s, 2*%s]' % (v0, v0), '[[%s]]' % v0, '[1,2,3]+1', '[1,2,3]/[1,2,3]'] + \
            pal['malformed'][:6]
        partial = None
        others = ['[1, %s, 2]' % v0]
    if 'comparer' not in cfg and maybe(rng, 0.25) and configured:
        stub = gid + '.cmp'
        kind = pick(rng, ['equal', 'table'])
        spec = {'name': stub, 'kind': kind}
        if kind == 'table':
            spec['returns'] = pick(rng, [[True], [True, False], ['partial'], ['Partial', True], ['partial'],
                                         [{'grade_decimal': 0.5, 'msg': 'cmp: half'}],
                                         [{'grade_decimal': 0.5}],
                                         [{'grade_decimal': 1, 'msg': 'cmp says ok'}],
                                         [False, {'grade_decimal': 0.25, 'msg': 'a\nb'}]])
        ans = {'expect': {'comparer_params': [answer], 'comparer': {'__cmp__': spec}}}
        if maybe(rng, 0.5):
            ans['grade_decimal'] = pick(rng, [1, 0.5, 0.25, 0, 0])
            ans['msg'] = pick(rng, ['', 'noted'])
        cfg['answers'] = ans if maybe(rng, 0.7) else T(ans, {'expect': rights[0], 'grade_decimal': 0.5})
        targets.append({'name': stub, 'n': cfg.get('samples', 5), 'where': 'cmp'})
    elif configured and maybe(rng, 0.18):
        # built-in comparers of the library
        which = rng.choice([0, 1, 2, 2])
        if which == 0:
            cfg['answers'] = {'expect': {'comparer': {'__cmp__': {'builtin': 'congruence_comparer'}},
                                         'comparer_params': [answer, '2*pi']},
                              'grade_decimal': pick(rng, [1, 0.5])}
            pal['right'] = pal['right'] + ['%s+2*pi' % answer, '%s-4*pi' % answer]
            pal['wrong'] = pal['wrong'] + ['%s+pi' % answer]
        elif which == 1:
            cfg['answers'] = {'expect': {'comparer': {'__cmp__': {'builtin': 'between_comparer'}},
                                         'comparer_params': ['-1e6', '1e6']}}
            pal['wrong'] = pal['wrong'] + ['1e7', '%s+i' % answer, '-1e9']
        else:
            cfg['answers'] = {'expect': {'comparer': {'__cmp__': {'cls': 'LinearComparer', 'cfg': {
                'equals': 1.0, 'proportional': pick(rng, [0.5, 0]), 'offset': pick(rng, [0, 0.25]),
                'linear': pick(rng, [0, 0.1])}}}, 'comparer_params': [answer]}}
            cfg['samples'] = max(cfg.get('samples', 5), 3)
            pal['wrong'] = ['0', '2*(%s)' % answer, '0*%s' % variables[0], '3*(%s)' % answer, '(%s)+3' % answer,
                            '3*(%s)-1' % answer, '', ' ', '1e200*(%s)' % answer, '[1,2]']
    elif configured:
        cfg['answers'] = answers_of(rng, [answer] + rights, partial=partial)
    return {'bp': {'id': gid, 'cls': cls, 'cfg': cfg}, 'configured': configured, 'kind': 'text',
            'pal': pal, 'expects': {'valid': [answer] + others, 'invalid': []},
            'targets': targets, 'depth': 0, 'debug': bool(cfg.get('debug'))}


def t_numerical(rng, gid, configured=None):
    configured = maybe(rng, 0.6) if configured is None else configured
    cfg = {}
    common_opts(rng, cfg)
    answer, rights, wrongs = pick(rng, [
        ('3.5', ['7/2', '3.5', '35e-1', '350%'], ['3', '4', '-3.5']),
        ('sqrt(2)', ['2^0.5', '1.41421356'], ['1.5', '2']),
        ('2*pi', ['pi+pi', '6.2831853'], ['pi', '6']),
        ('1+i', ['i+1', '(1+i)'], ['1-i', '1']),
    ])
    if maybe(rng, 0.3):
        cfg['tolerance'] = pick(rng, ['1%', 0.01, 0])
    if maybe(rng, 0.15):
        cfg['metric_suffixes'] = True
        if answer == '3.5':
            rights = rights + ['3500m', '0.0035k']
    targets = []
    if maybe(rng, 0.25):
        stub = gid + '.nf'
        cfg['user_functions'] = {'nf': {'__fn__': {'name': stub, 'kind': 'lin', 'arity': 1}}}
        rights = rights + ['%s+nf(0)-1' % answer]
        targets.append({'name': stub, 'n': 1, 'where': 'fn'})
    if configured:
        cfg['answers'] = answers_of(rng, [answer] + rights, partial=wrongs[0])
    pal = {'right': [answer] + rights, 'wrong': wrongs,
           'malformed': ['3.5.5', 'abc', '1/0', '3+', '((3)', '2k', '10^400', 'x', '３']}
    return {'bp': {'id': gid, 'cls': 'NumericalGrader', 'cfg': cfg}, 'configured': configured,
            'kind': 'text', 'pal': pal, 'expects': {'valid': [answer, '2', '1e3'], 'invalid': []},
            'targets': targets, 'depth': 0, 'debug': bool(cfg.get('debug'))}


def t_matrix(rng, gid, configured=None, theme=False):
    configured = maybe(rng, 0.9 if theme else 0.7) if configured is None else configured
    cfg = {'variables': ['A', 'B', 'v'],
           'sample_from': {
               'A': {'__obj__': {'cls': 'RealMatrices', 'cfg': {'shape': [2, 2]}}},
               'B': {'__obj__': {'cls': pick(rng, ['RealMatrices', 'ComplexMatrices']),
                                 'cfg': {'shape': [2, 2]}}},
               'v': {'__obj__': {'cls': 'RealVectors', 'cfg': {'shape': 2}}}},
           'max_array_dim': 2}
    common_opts(rng, cfg)
    if maybe(rng, 0.5):
        cfg['negative_powers'] = False
    if maybe(rng, 0.3):
        cfg['shape_errors'] = False
    if maybe(rng, 0.2):
        cfg['suppress_matrix_messages'] = True
    if maybe(rng, 0.3):
        cfg['answer_shape_mismatch'] = {'is_raised': maybe(rng, 0.5),
                                        'msg_detail': pick(rng, [None, 'type', 'shape'])}
    if maybe(rng, 0.35):
        r = rng.random()
        if r < 0.7:
            cfg['entry_partial_credit'] = pick(rng, ['proportional', 0.5, 0, 1, 0.25])
        if r > 0.5:
            cfg['entry_partial_msg'] = pick(rng, ['Some entries are wrong', 'wrong entries:\n{error_locations}'])
    if maybe(rng, 0.3):
        cfg['identity_dim'] = 2
    if maybe(rng, 0.3):
        cfg['samples'] = pick(rng, [1, 2, 3])
    answer, rights, wrongs = pick(rng, [
        ('A*v', ['A*v', '(A*v)', 'A*v+[0,0]'], ['v', 'B*v', 'A*A*v']),
        ('A*B', ['A*B', 'A*B*1'], ['B*A', 'A+B', 'A']),
        ('A^2+B', ['A*A+B', 'B+A^2'], ['A^2', 'A*B']),
        ('v*v', ['v*v'], ['2', 'A']),
    ])
    targets = []
    if maybe(rng, 0.85 if theme else 0.35):
        stub = gid + '.mf'
        cfg['user_functions'] = {'mf': {'__fn__': {'name': stub, 'kind': 'const', 'arity': 1, 'c': 1.0}}}
        rights = rights + ['mf(1)*(%s)' % answer, '(%s)*mf(1)' % answer]
        targets.append({'name': stub, 'n': 2 * cfg.get('samples', 5), 'where': 'fn'})
    if configured and maybe(rng, 0.2):
        which = rng.randrange(4)
        if which == 0:
            cfg['answers'] = {'expect': {'comparer': {'__cmp__': {'builtin': 'eigenvector_comparer'}},
                                         'comparer_params': ['[[1,0],[0,2]]', '2']}}
            answer, rights, wrongs = '[0,1]', ['[0,1]', '[0,-3]', '[0,2*i]'], ['[1,0]', '[1,1]', '[0,0]', '[0,1,0]', '5']
        elif which == 1:
            cfg['answers'] = {'expect': {'comparer': {'__cmp__': {'builtin': 'vector_span_comparer'}},
                                         'comparer_params': ['[1,1]']}}
            answer, rights, wrongs = '[1,1]', ['[1,1]', '[-2,-2]', '[i,i]'], ['[1,-1]', '[0,0]', '[1,1,1]', '1']
        elif which == 2:
            cfg['answers'] = {'expect': {'comparer': {'__cmp__': {'builtin': 'vector_phase_comparer'}},
                                         'comparer_params': ['[1,i]']}}
            answer, rights, wrongs = '[1,i]', ['[1,i]', '[i,-1]', '[-1,-i]'], ['[1,-i]', '[2,2*i]', '[0,0]', 'i']
        else:
            cfg['answers'] = {'expect': {'comparer': {'__cmp__': {'cls': 'MatrixEntryComparer', 'cfg': {
                'entry_partial_credit': pick(rng, ['proportional', 0.5, 0, 1]),
                'entry_partial_msg': pick(rng, ['Some array entries are incorrect, marked below:\n{error_locations}',
                                                'entries wrong'])}}},
                                         'comparer_params': [answer]}}
            for key in ('entry_partial_credit', 'entry_partial_msg'):
                cfg.pop(key, None)
    elif configured:
        cfg['answers'] = answers_of(rng, [answer] + rights, partial=None)
    negs = ['A^-1*A*(%s)' % answer, '(%s)*B^-1*B' % answer if answer != 'A*v' and answer != 'v*v' else 'A^-1*A*(%s)' % answer,
            'A^-2*A^2*(%s)' % answer]
    negs += ['[[2,0],[0,4]]^-1', '[[2,0],[0,4]]^-1*[1,1]', '[[1,2],[3,4]]^-2']      # name-free inputs
    if targets:
        negs += ['mf(1)*A^-1*A*(%s)' % answer, 'A^-1*mf(1)*A*(%s)' % answer, 'A^-1*A*mf(1)*(%s)' % answer]
    bump = {'A*v': '[0,0.37]', 'A*B': '[[0,0],[0,0.37]]', 'A^2+B': '[[0.37,0],[0,0]]'}.get(answer)
    if bump:
        # some, but not all, entries right
        wrongs = wrongs + ['%s+%s' % (answer, bump), '%s-%s' % (rights[-1], bump)]
    pal = {'right': [answer] + rights, 'wrong': wrongs, 'neg': negs,
           'malformed': ['A+v', 'v*v*v', 'A^v', 'A^0.5', '[1,2', '[[1,2],[3]]', 'A/B', 'v^2', 'A*',
                         'trans(v', 'det(v)', '[[[1]]]', 'A+1', '1/v']}
    return {'bp': {'id': gid, 'cls': 'MatrixGrader', 'cfg': cfg}, 'configured': configured,
            'kind': 'text', 'pal': pal, 'expects': {'valid': [answer, 'A', 'B*v'], 'invalid': []},
            'targets': targets, 'depth': 0, 'debug': bool(cfg.get('debug')), 'matrix': True}


def t_simitem(rng, gid, configured=None, tag=None):
    configured = maybe(rng, 0.4) if configured is None else configured
    tag = maybe(rng, 0.65) if tag is None else tag
    shared_res = maybe(rng, 0.4)
    if shared_res and maybe(rng, 0.6):
        tag = False
    cfg = {'name': gid + '.sim', 'tag': tag, 'shared': shared_res,
           'table': {'a': {'a': 1, 'A': 0.5, 'b': 0}, 'b': {'b': 1, 'a': 0.25}, 'c': {'c': 1, 'C': 1.0 / 3}}}
    common_opts(rng, cfg)
    if shared_res and maybe(rng, 0.6):
        cfg['wrong_msg'] = pick(rng, ['Try again', 'Nope.\nLook at the units', 'hint for ' + gid])
    if configured:
        cfg['answers'] = answers_of(rng, ['a', 'A'], partial='b')
    return {'bp': {'id': gid, 'cls': 'SimItemGrader', 'cfg': cfg}, 'configured': configured,
            'kind': 'text', 'pal': {'right': ['a'], 'wrong': ['b', 'zzz', ''], 'malformed': []},
            'expects': {'valid': ['a', 'b', 'c'], 'invalid': ['!Ix', '!Vy', '!Pz', '!P\nq']},
            'targets': [{'name': gid + '.sim', 'n': 2, 'where': 'sub'}], 'depth': 0,
            'debug': bool(cfg.get('debug'))}


def _sub_for_list(rng, gid, allow_ref=None):
    """A subgrader for SingleListGrader / ListGrader: returns (data, items, targets, depth)."""
    r = rng.random()
    if allow_ref and r < 0.42:
        ref = pick(rng, allow_ref)
        return {'__ref__': ref['id']}, ref['items'], ref['targets'], 1
    if r < 0.45:
        return ({'__grader__': {'cls': 'StringGrader', 'cfg': {}}},
                {'right': ['a', 'b', 'c', 'd'], 'wrong': ['x', 'y'], 'bad': []}, [], 1)
    if r < 0.7:
        name = gid + '.sub'
        sub = {'__grader__': {'cls': 'SimItemGrader',
                              'cfg': {'name': name, 'shared': maybe(rng, 0.45),
                                      'table': {'a': {'a': 1, 'A': 0.5}, 'b': {'b': 1, 'B': 0.25},
                                                'c': {'c': 1, 'C': 1.0 / 3}, 'd': {'d': 1, 'a': 0.1}}}}}
        return (sub, {'right': ['a', 'b', 'c', 'd'], 'wrong': ['x', 'A', 'B', 'C'], 'bad': []},
                [{'name': name, 'n': 6, 'where': 'sub'}], 1)
    if r < 0.85:
        return ({'__grader__': {'cls': 'FormulaGrader', 'cfg': {'variables': ['x']}}},
                {'right': ['x', '2*x', 'x^2', 'x+1'], 'wrong': ['3*x', '0'], 'bad': ['x+', '(x', 'foo(x)']},
                [], 1)
    return ({'__grader__': {'cls': 'NumericalGrader', 'cfg': {}}},
            {'right': ['1', '2', '3', '4'], 'wrong': ['5', '0.5'], 'bad': ['1/0', 'x', '1+']}, [], 1)


def t_singlelist(rng, gid, configured=None, shared=None):
    configured = maybe(rng, 0.5) if configured is None else configured
    sub, items, targets, depth = _sub_for_list(rng, gid, shared)
    cfg = {'subgrader': sub}
    common_opts(rng, cfg)
    for flag in ('ordered', 'length_error', 'partial_credit'):
        if maybe(rng, 0.3):
            cfg[flag] = maybe(rng, 0.5)
    if maybe(rng, 0.25):
        cfg['missing_error'] = False
    delim = pick(rng, [',', ',', ';', '|'])
    if delim != ',':
        cfg['delimiter'] = delim
    n = pick(rng, [2, 3, 3, 4])
    rights = items['right'][:n]
    nested = False
    if maybe(rng, 0.15) and delim != ',' and '__grader__' in sub:
        # one level of nesting: list of lists
        nested = True
        cfg['subgrader'] = {'__grader__': {'cls': 'SingleListGrader', 'cfg': {'subgrader': sub}}}
        depth += 1
    j = (delim + ' ').join
    if nested:
        right = j(['%s, %s' % (rights[0], rights[1]), '%s, %s' % (rights[1], rights[0])])
        pal = {'right': [right], 'wrong': [j([rights[0], rights[1]]), right + delim + 'x'],
               'malformed': [delim, right + delim, ',' + delim + ',']}
        expects = {'valid': [right, j(['a,b', 'c,d'])],
                   'invalid': ['a,,b' + delim + 'c,d', delim + 'a,b']}
        ans = [[rights[0], rights[1]], [rights[1], rights[0]]]
    else:
        right = j(rights)
        perm = j(list(reversed(rights)))
        pal = {'right': [right, perm], 'wrong': [j(rights[:-1]), j(rights + [items['wrong'][0]]),
                                                 j(items['wrong'][:2])],
               'malformed': [delim.join([rights[0], '', rights[1]]), delim, right + delim] +
                            [j([rights[0], b]) for b in items['bad'][:2]]}
        expects = {'valid': [right, j(items['right'][:2]), j(list(reversed(items['right'])))],
                   'invalid': [delim.join([rights[0], ' ', rights[1]]), delim + rights[0], rights[0] + delim]}
        ans = list(rights)
    if cfg.get('missing_error') is False:
        expects['valid'] = expects['valid'] + expects['invalid'][:1] if False else expects['valid']
        expects['invalid'] = []
    if configured:
        form = rng.randrange(4)
        if form == 0:
            cfg['answers'] = ans
        elif form == 1:
            cfg['answers'] = right
        elif form == 2:
            cfg['answers'] = {'expect': ans, 'msg': 'all good', 'grade_decimal': pick(rng, [1, 0.5])}
        elif form == 3 and not nested and len(rights) >= 2 and maybe(rng, 0.5):
            # a known wrong list worth nothing, kept for its hint (listed first or last)
            zero = {'expect': [rights[0]] + list(items['wrong'][:len(rights) - 1]), 'grade_decimal': 0,
                    'msg': 'you mixed these up'}
            cfg['answers'] = T(zero, ans) if maybe(rng, 0.5) else T(ans, zero)
            pal['wrong'] = pal['wrong'] + [j(zero['expect']), j([rights[0], 'zz'])]
        else:
            cfg['answers'] = T(ans, {'expect': right if not nested else ans, 'grade_decimal': 0.5})
    return {'bp': {'id': gid, 'cls': 'SingleListGrader', 'cfg': cfg}, 'configured': configured,
            'kind': 'text', 'pal': pal, 'expects': expects, 'targets': targets, 'depth': depth,
            'debug': bool(cfg.get('debug'))}


def t_interval(rng, gid, configured=None):
    configured = maybe(rng, 0.5) if configured is None else configured
    cfg = {}
    common_opts(rng, cfg)
    style = 'kwargs'
    sub_kind = rng.random()
    if sub_kind < 0.3:
        cfg['subgrader'] = {'__grader__': {'cls': 'FormulaGrader',
                                           'cfg': {'variables': ['a'], 'tolerance': 1e-10}}}
    custom = None
    if maybe(rng, 0.3):
        custom = pick(rng, ['<>', '{}'])
        cfg['opening_brackets'] = '[(' + custom[0]
        cfg['closing_brackets'] = '])' + custom[1]
    if maybe(rng, 0.2):
        cfg['partial_credit'] = False
    if configured:
        form = rng.randrange(4)
        if form == 3:
            cfg['answers'] = T({'expect': '(1, 2)', 'grade_decimal': 0, 'msg': 'check the brackets'}, '[1, 2)')
        elif form == 0:
            cfg['answers'] = '[1, 2)'
        elif form == 1:
            cfg['answers'] = ['[', '1', '2', ')']
        else:
            cfg['answers'] = [T('[', {'expect': '(', 'grade_decimal': 0.5, 'msg': 'open?'}), '1',
                              {'expect': '2', 'msg': 'two'}, ')']
    pal = {'right': ['[1,2)', '[ 1 , 2 )', '[2/2, 1+1)'], 'wrong': ['(1,2)', '[1,3)', '[2,1)', '(0,5]'],
           'malformed': ['[1,2', '{1,2}', '[1)', '[1,2,3]', '[,2]', '1,2', '[1,,2]', '[1/0,2)', '[x,2)', '']}
    expects = {'valid': ['[1,2)', '(0,1]', '[ 1, 2 )'],
               'invalid': ['{1,2}', '<1,2>', '[1)', '[1,2,3]', '[,2]', '[1,2', 'ab']}
    if custom:
        # expect strings that only a grader with these extra brackets may accept
        own = '%s1,2%s' % (custom[0], custom[1])
        expects['valid'] = expects['valid'] + [own, own]
        expects['invalid'] = [e for e in expects['invalid'] if e != own]
        pal['right'] = pal['right'] + ['[1,2)']
        pal['malformed'] = pal['malformed'] + ['%s1,2)' % custom[0], '|1,2%s' % custom[1]]
    return {'bp': {'id': gid, 'cls': 'IntervalGrader', 'cfg': cfg, 'style': style},
            'configured': configured, 'kind': 'text', 'pal': pal, 'expects': expects, 'targets': [],
            'depth': 1, 'debug': bool(cfg.get('debug'))}


def t_sum(rng, gid, configured=True):
    cfg = {'answers': {'lower': '1', 'upper': pick(rng, ['5', '8', 'infty']),
                       'summand': pick(rng, ['1/n^2', '2^(-n)', 'n*(1/2)^n']),
                       'summation_variable': 'n'}}
    common_opts(rng, cfg, item=False)
    if cfg['answers']['upper'] == 'infty':
        cfg['infty_val'] = 60
        cfg['tolerance'] = '1%'
    a = cfg['answers']
    full = [a['lower'], a['upper'], a['summand'], a['summation_variable']]
    if maybe(rng, 0.3):
        cfg['input_positions'] = {'lower': 1, 'upper': 2, 'summand': 3}
        full = full[:3]
    renamed = list(full)
    if len(renamed) == 4:
        renamed[2] = renamed[2].replace('n', 'k')
        renamed[3] = 'k'
    pal = {'right': [full, renamed], 'wrong': [[full[0], '4'] + full[2:], ['2'] + full[1:]],
           'malformed': [full[:2] + ['1/'] + full[3:], [''] + full[1:], ['1.5'] + full[1:],
                         full[:-1], full + ['x'], ['i'] + full[1:], full[:2] + ['pi*'] + full[3:]]}
    return {'bp': {'id': gid, 'cls': 'SumGrader', 'cfg': cfg}, 'configured': True, 'kind': 'list',
            'n': len(full), 'pal': pal, 'expects': {'valid': [], 'invalid': []}, 'targets': [],
            'depth': 0, 'debug': bool(cfg.get('debug'))}


def t_integral(rng, gid, configured=True):
    """IntegralGrader cannot integrate here (scipy is absent) but it can be constructed and
    called: everything up to the quadrature runs, and the call must fail cleanly."""
    cfg = {'answers': {'lower': '0', 'upper': pick(rng, ['1', 'pi', 'infty']),
                       'integrand': pick(rng, ['x', 'x^2', 'exp(-x)']), 'integration_variable': 'x'}}
    common_opts(rng, cfg, item=False)
    a = cfg['answers']
    full = [a['lower'], a['upper'], a['integrand'], a['integration_variable']]
    pal = {'right': [full, [full[0], full[1], full[2].replace('x', 't'), 't']],
           'wrong': [[full[0], '2'] + full[2:]],
           'malformed': [full[:3], [''] + full[1:], full[:2] + ['1/'] + full[3:], ['i'] + full[1:]]}
    return {'bp': {'id': gid, 'cls': 'IntegralGrader', 'cfg': cfg}, 'configured': True, 'kind': 'list',
            'n': 4, 'pal': pal, 'expects': {'valid': [], 'invalid': []}, 'targets': [], 'depth': 0,
            'debug': bool(cfg.get('debug')), 'budget_all': True}


def t_list(rng, gid, shared=None):
    """ListGrader: ordered/unordered, single or several subgraders, optional grouping with nesting."""
    cfg = {}
    common_opts(rng, cfg, item=False)
    targets = []
    r = rng.random()
    depth = 1
    if maybe(rng, 0.2):
        # "whatever the constructor accepts": a grouping, a subgrader layout and answer lists
        # composed at random. The constructor may refuse the combination (then the tenant simply
        # cannot be built); if it accepts it, every call must still end in a result or a library error.
        ngroups = pick(rng, [1, 2, 2, 3, 3, 3])
        single = maybe(rng, 0.5)
        same = rng.randint(1, 3)
        sizes = [same if (single and maybe(rng, 0.9)) else rng.randint(1, 3) for _ in range(ngroups)]
        nogroup = maybe(rng, 0.35)
        if nogroup:
            # no grouping at all: every subgrader receives one box
            ngroups = max(ngroups, 2)
            sizes = [1] * ngroups
        grouping = []
        for gnum in range(1, ngroups + 1):
            grouping += [gnum] * sizes[gnum - 1]
        rng.shuffle(grouping)
        inner = {'__grader__': {'cls': 'ListGrader', 'cfg': {
            'subgraders': {'__grader__': {'cls': 'StringGrader', 'cfg': {}}}, 'ordered': maybe(rng, 0.5)}}}
        plain = {'__grader__': {'cls': 'StringGrader', 'cfg': {}}}
        if single:
            cfg['subgraders'] = inner if maybe(rng, 0.9) else plain
            cfg['ordered'] = maybe(rng, 0.5)
            kinds = [cfg['subgraders'] is inner] * 5
            nans = max(1, ngroups + pick(rng, [0, 0, 1, -1, -1]))
        else:
            kinds = [(sizes[k % ngroups] > 1) != maybe(rng, 0.4 if nogroup else 0.1)
                     for k in range(max(1, ngroups + pick(rng, [0, 0, 0, 0, 0, 1, -1])))]
            cfg['subgraders'] = [inner if k else plain for k in kinds]
            cfg['ordered'] = True
            nans = max(1, len(kinds) + pick(rng, [0, 0, 0, 0, 0, 0, 1, -1]))
        if not nogroup:
            cfg['grouping'] = grouping
        else:
            grouping = list(range(1, ngroups + 1))
        cfg['answers'] = []
        for k in range(nans):
            size = sizes[k % ngroups]
            isinner = kinds[k % len(kinds)]
            if isinner and size == 1 and maybe(rng, 0.85):
                # a one-box group handed to a ListGrader: the box's text is what the inner grader
                # receives where it expects a list
                cfg['answers'].append(pick(rng, [['a', 'b'], ['a', 'b', 'c']]))
            elif maybe(rng, 0.9):
                cfg['answers'].append(['a', 'b', 'c'][:size] if isinner else 'z')
            else:
                cfg['answers'].append(pick(rng, [['a', 'b'], ['a', 'b', 'c'], 'z']))
        if len(cfg['answers']) == 1:
            cfg['answers'] = cfg['answers'] + cfg['answers']
        n = len(grouping)
        letters = ['a', 'b', 'z', '', 'ab', 'ab', 'ba', 'abc', 'abc']
        # the submission that follows the configured answers as closely as the layout allows
        follow, seen = [], {}
        for gnum in grouping:
            ans = cfg['answers'][gnum - 1] if gnum - 1 < len(cfg['answers']) else 'z'
            pos = seen.get(gnum, 0)
            seen[gnum] = pos + 1
            if isinstance(ans, list):
                follow.append('abc'[:len(ans)] if sizes[gnum - 1] == 1 else ans[pos % len(ans)])
            else:
                follow.append(ans)
        # ... and variations that keep each box's length (a nested grader handed a bare text
        # looks at nothing else before grading it)
        same_len = {1: ['a', 'b', 'z'], 2: ['ab', 'ba', 'zz'], 3: ['abc', 'cab', 'zzz']}

        def vary(box):
            return pick(rng, same_len.get(len(box), [box]))
        pal = {'right': [follow, [vary(b) for b in follow], [pick(rng, letters) for _ in range(n)]],
               'wrong': [[vary(b) for b in follow], [vary(b) for b in reversed(follow)],
                         [pick(rng, letters) for _ in range(n)]],
               'malformed': [[pick(rng, letters) for _ in range(max(1, n - 1))], ['a'] * (n + 1)]}
        return {'bp': {'id': gid, 'cls': 'ListGrader', 'cfg': cfg}, 'configured': True, 'kind': 'list', 'n': n,
                'pal': pal, 'expects': {'valid': [], 'invalid': []}, 'targets': [], 'depth': 2,
                'debug': bool(cfg.get('debug'))}
    if r < 0.12:
        # answers that refer to sibling inputs (documented feature of ordered formula lists):
        # each sibling input becomes a dependent variable sampled alongside the author's
        cfg['ordered'] = True
        cfg['subgraders'] = {'__grader__': {'cls': 'FormulaGrader', 'cfg': {'variables': ['x']}}}
        cfg['answers'] = pick(rng, [['sibling_2 + sibling_3', 'x', 'x^2'], ['x', 'sibling_1^2', 'sibling_2+1'],
                                    ['sibling_3', 'sibling_1*2', 'x']])
        first = cfg['answers']
        if first[0].startswith('sibling_2'):
            right = ['x + x^2', 'x', 'x^2']
            bad = [['x + x^2', 'x', 'y^2'], ['x + x^2', 'x', ''], ['x + x^2', 'x+', 'x^2'],
                   ['x + x^2', 'sibling_3', 'x^2'], ['sibling_1', 'x', 'x^2'], ['x', 'x', 'sibling_2']]
        elif first[0] == 'x':
            right = ['x', 'x^2', 'x^2+1']
            bad = [['y', 'x^2', 'x^2+1'], ['x', 'zz', 'x^2+1'], ['', 'x^2', 'x^2+1'], ['x', 'sibling_3', 'sibling_2']]
        else:
            right = ['x', 'x*2', 'x']
            bad = [['x', 'q*2', 'x'], ['sibling_2', 'sibling_3', 'sibling_1'], ['x', 'x*2', 'w']]
        pal = {'right': [right], 'wrong': [[right[0], right[1], '2*x'], ['0', right[1], right[2]]], 'malformed': bad}
        return {'bp': {'id': gid, 'cls': 'ListGrader', 'cfg': cfg}, 'configured': True, 'kind': 'list', 'n': 3,
                'pal': pal, 'expects': {'valid': [], 'invalid': []}, 'targets': [], 'depth': 1,
                'debug': bool(cfg.get('debug')), 'budget_all': True}
    if r < 0.55:
        sub, items, targets, depth = _sub_for_list(rng, gid, shared)
        n = pick(rng, [2, 3, 4])
        rights = items['right'][:n]
        cfg['subgraders'] = sub
        cfg['ordered'] = maybe(rng, 0.4)
        form = rng.randrange(3)
        if form == 0:
            cfg['answers'] = list(rights)
        elif form == 1:
            cfg['answers'] = [T(rights[0], {'expect': items['wrong'][0], 'grade_decimal': 0.5, 'msg': 'half'})] + rights[1:]
        else:
            cfg['answers'] = T(list(rights), list(reversed(rights)) if n > 2 else [rights[1], rights[0]])
        if maybe(rng, 0.4):
            cfg['partial_credit'] = False
        right = list(rights)
        pal = {'right': [right, list(reversed(right))],
               'wrong': [[right[0]] + [items['wrong'][0]] * (n - 1), [items['wrong'][-1]] * n,
                         [right[0]] * n],
               'malformed': [right[:-1], right + ['extra'], [''] * n] +
                            [[b] + right[1:] for b in items['bad'][:2]]}
    elif r < 0.8:
        # several different subgraders, ordered
        cfg['ordered'] = True
        name = gid + '.s1'
        cfg['subgraders'] = [
            {'__grader__': {'cls': 'StringGrader', 'cfg': {}}},
            {'__grader__': {'cls': 'FormulaGrader', 'cfg': {'variables': ['x']}}},
            {'__grader__': {'cls': 'SimItemGrader', 'cfg': {'name': name, 'table': {'k': {'k': 1, 'K': 0.5}}}}}]
        targets = [{'name': name, 'n': 1, 'where': 'sub'}]
        cfg['answers'] = ['cat', pick(rng, ['x^2', 'x+1']), 'k']
        fa = cfg['answers'][1]
        pal = {'right': [['cat', fa, 'k'], [' cat', '(%s)' % fa, 'k']],
               'wrong': [['dog', fa, 'K'], ['cat', 'x', 'zz'], ['', '', '']],
               'malformed': [['cat', 'x+', 'k'], ['cat', fa], ['cat', 'foo(x)', 'k'], ['cat', '1/0', 'k']]}
        n = 3
    else:
        # grouping with a nested ListGrader and a singleton
        depth = 2
        name = gid + '.in'
        inner = {'__grader__': {'cls': 'ListGrader', 'cfg': {
            'subgraders': {'__grader__': {'cls': 'SimItemGrader', 'cfg': {
                'name': name, 'table': {'a': {'a': 1, 'A': 0.5}, 'b': {'b': 1}}}}},
            'ordered': maybe(rng, 0.5)}}}
        targets = [{'name': name, 'n': 4, 'where': 'sub'}]
        cfg['ordered'] = True
        cfg['subgraders'] = [inner, {'__grader__': {'cls': 'StringGrader', 'cfg': {}}}]
        grouping = pick(rng, [[1, 1, 2], [1, 2, 1], [2, 1, 1]])
        cfg['grouping'] = grouping
        cfg['answers'] = [['a', 'b'], 'z']
        pos1 = [i for i, gnum in enumerate(grouping) if gnum == 1]
        pos2 = grouping.index(2)

        def place(first, second, single):
            out = [None, None, None]
            out[pos1[0]], out[pos1[1]], out[pos2] = first, second, single
            return out
        pal = {'right': [place('a', 'b', 'z')], 'wrong': [place('b', 'a', 'z'), place('A', 'x', 'q'),
                                                          place('a', 'b', 'q')],
               'malformed': [['a', 'b'], ['a', 'b', 'z', 'w']]}
        n = 3
    return {'bp': {'id': gid, 'cls': 'ListGrader', 'cfg': cfg}, 'configured': True, 'kind': 'list',
            'n': n, 'pal': pal, 'expects': {'valid': [], 'invalid': []}, 'targets': targets,
            'depth': depth, 'debug': bool(cfg.get('debug'))}


def shared_sub(rng, sid):
    """A subgrader built on its own and shared by reference between several list graders."""
    r = rng.random()
    if r < 0.5:
        name = sid + '.shared'
        bp = {'id': sid, 'cls': 'SimItemGrader',
              'cfg': {'name': name, 'table': {'a': {'a': 1, 'A': 0.5}, 'b': {'b': 1, 'B': 0.25},
                                              'c': {'c': 1}, 'd': {'d': 1}}}}
        return {'bp': bp, 'id': sid, 'items': {'right': ['a', 'b', 'c', 'd'], 'wrong': ['x', 'A', 'B'], 'bad': []},
                'targets': [{'name': name, 'n': 6, 'where': 'sub'}]}
    if r < 0.8:
        bp = {'id': sid, 'cls': 'StringGrader', 'cfg': {'case_sensitive': False}}
        if maybe(rng, 0.2):
            bp['cfg']['debug'] = True
        return {'bp': bp, 'id': sid, 'items': {'right': ['a', 'b', 'c', 'd'], 'wrong': ['x', 'y'], 'bad': []},
                'targets': []}
    bp = {'id': sid, 'cls': pick(rng, ['FormulaGrader', 'FormulaGrader', 'NumericalGrader']), 'cfg': {}}
    if bp['cls'] == 'FormulaGrader':
        bp['cfg']['variables'] = ['x']
        items = {'right': ['x', '2*x', 'x^2', 'x+1'], 'wrong': ['3*x', '0'], 'bad': ['x+', 'foo(x)']}
    else:
        items = {'right': ['1', '2', '3', '4'], 'wrong': ['5', '0.5'], 'bad': ['1/0', '1+']}
    if maybe(rng, 0.35):
        # the author asked for debugging output of this subgrader
        bp['cfg']['debug'] = True
    return {'bp': bp, 'id': sid, 'items': items, 'targets': []}


TEMPLATES = {
    'string': t_string, 'formula': t_formula, 'numerical': t_numerical, 'matrix': t_matrix,
    'simitem': t_simitem, 'singlelist': t_singlelist, 'interval': t_interval, 'sum': t_sum,
    'list': t_list, 'integral': t_integral,
}

WRONG_KIND_TEXT = [5, None, 3.5, {'__bytes__': 'cat'}, ['cat'], ['a', 'b'], [], True, {'__tuple__': ['a']}]
WRONG_KIND_LIST = ['cat', 5, None, {'__tuple__': ['a', 'b']}, ['a', 5], ['a', None, 'b'], [['a'], 'b']]
