"""
gradesim.batch -- one process tree per (property, hash seed): a pristine zygote that
forks workers, which fork one child per run.  Also: replay and shrinking.

Entry point (always started by ../check with an explicit PYTHONHASHSEED):
    python batch.py run    --prop C11 --tier quick --seed S --out FILE [--runs N] [--workers W] [--first K]
    python batch.py replay --file REPLAY
"""
import argparse
import importlib
import json
import os
import random
import sys
import time

HERE = os.path.dirname(os.path.abspath(__file__))
sys.path.insert(0, os.path.dirname(HERE))

from gradesim import core  # noqa: E402

WORLD_MODULES = {
    'C01': 'gradesim.worlds.c01',
    'C02': 'gradesim.worlds.c02',
    'C04': 'gradesim.worlds.c04',
    'C06': 'gradesim.worlds.c06',
    'C10': 'gradesim.worlds.c10',
    'C11': 'gradesim.worlds.c11',
    'C12': 'gradesim.worlds.c12',
    'C13': 'gradesim.worlds.c13',
    'C17': 'gradesim.worlds.c17',
}


def get_world(prop):
    mod = importlib.import_module(WORLD_MODULES[prop])
    return mod.WORLD


def run_seed(world, seed, idx):
    return core.derive(seed, world.PROP, idx)


def one_run(world, seed, idx, tier, baseline, journal=None):
    """Generate (unless given) and execute one run. Runs inside a forked child."""
    if journal is None:
        rng = random.Random(run_seed(world, seed, idx))
        journal = world.generate(rng, tier, idx)
    res = world.execute(journal, baseline)
    res['journal_digest'] = core.jdigest(journal)
    res['idx'] = idx
    if res.get('violations') or res.get('r3_jobs'):
        res['journal'] = journal
    return res


def run_audits(world, res):
    """R3: repeat each recorded fresh-instance computation in its own pristine child."""
    journal = res['journal']
    n = 0
    for job in res.pop('r3_jobs'):
        status, out = core.run_in_child(lambda: world.audit(journal, job), timeout=60)
        n += 1
        if status != 'ok':
            continue
        if out['o'] != job['o']:
            tp = journal['tenants'][job['gid']]
            res.setdefault('violations', []).append({
                'check': 'R3', 'event': job['i'], 'cls': tp['bp']['cls'],
                'sig': 'R3|%s' % tp['bp']['cls'],
                'detail': ('call #%d on %s(%s): in this world %s ; a fresh instance in a pristine process gives %s'
                           % (job['i'], tp['bp']['cls'], job['gid'], core.short(job['o']), core.short(out['o'])))[:1500]})
    res.setdefault('refs', {})['R3'] = n
    return res


def merge_counts(into, frm):
    for k, v in frm.items():
        into[k] = into.get(k, 0) + v


def worker_loop(world, seed, tier, baseline, indices, deadline, timeout, keep_logs):
    agg = {'runs': 0, 'events': 0, 'fired': {}, 'probes': {}, 'refs': {}, 'sigs': {},
           'classes': {}, 'violations': [], 'harness': [], 'samples': [], 'logs': {},
           'jdigests': {}, 'sim_time': 0, 'timeouts': 0}
    for idx in indices:
        if time.monotonic() > deadline:
            break
        status, res = core.run_in_child(
            lambda: one_run(world, seed, idx, tier, baseline), timeout=timeout)
        if status == 'timeout':
            # a hang -- or merely a loaded machine: run it once more with three times the time
            # before calling it a violation
            status, res = core.run_in_child(
                lambda: one_run(world, seed, idx, tier, baseline), timeout=3 * timeout)
            if status == 'ok':
                agg['slow_reruns'] = agg.get('slow_reruns', 0) + 1
        if status == 'error' and 'child died without output' in res:
            # the child was killed from outside (memory pressure on a loaded machine, ...): a run is
            # a pure function of its seed, so run it once more; a run that kills its own process
            # dies again and is then reported as a harness error
            status, res = core.run_in_child(
                lambda: one_run(world, seed, idx, tier, baseline), timeout=3 * timeout)
            agg['died_reruns'] = agg.get('died_reruns', 0) + 1
        if status == 'timeout':
            # regenerate the journal (pure function of the seed) so it can be replayed
            agg['timeouts'] += 1
            st2, jr = core.run_in_child(
                lambda: world.generate(random.Random(run_seed(world, seed, idx)), tier, idx), 30)
            agg['violations'].append({
                'idx': idx, 'journal': jr if st2 == 'ok' else None,
                'violations': [{'check': 'I-budget', 'event': -1, 'sig': 'wall-clock watchdog',
                                'detail': 'run exceeded %.0fs wall clock' % timeout}]})
            continue
        if status == 'error':
            agg['harness'].append({'idx': idx, 'error': res[-3000:]})
            continue
        if res.get('r3_jobs') and hasattr(world, 'audit'):
            res = run_audits(world, res)
        agg['runs'] += 1
        agg['events'] += res.get('events', 0)
        agg['sim_time'] += res.get('sim_time', 0)
        merge_counts(agg['fired'], res.get('fired', {}))
        merge_counts(agg['probes'], res.get('probes', {}))
        merge_counts(agg['refs'], res.get('refs', {}))
        cls = res.get('class', 'fault-free')
        agg['classes'][cls] = agg['classes'].get(cls, 0) + 1
        sig = res.get('sig')
        if sig is not None:
            ent = agg['sigs'].get(sig)
            if ent is None:
                agg['sigs'][sig] = 1 if res.get('nontrivial') else 0
        if idx in keep_logs:
            agg['logs'][str(idx)] = res.get('log')
            agg['jdigests'][str(idx)] = res.get('journal_digest')
        if res.get('sample') is not None and len(agg['samples']) < 2:
            agg['samples'].append(res['sample'])
        if res.get('violations'):
            agg['violations'].append({'idx': idx, 'journal': res['journal'],
                                      'violations': res['violations']})
    return agg


def run_batch(world, tier, seed, runs, workers, first, wall_cap):
    core.load_lib()
    plan = world.plan(tier)
    runs = runs or plan['runs']
    timeout = plan.get('timeout', 60.0)
    status, baseline = core.run_in_child(world.baseline, timeout=120)
    if status != 'ok':
        return {'harness': [{'idx': -1, 'error': 'baseline failed: ' + str(baseline)[-2000:]}],
                'runs': 0}
    t0 = time.monotonic()
    deadline = t0 + wall_cap
    keep_logs = set(range(first))
    indices = [list(range(w, runs, workers)) for w in range(workers)]
    pipes = []
    for w in range(workers):
        r, wfd = os.pipe()
        sys.stdout.flush()
        pid = os.fork()
        if pid == 0:
            os.close(r)
            code = 0
            try:
                agg = worker_loop(world, seed, tier, baseline, indices[w], deadline, timeout,
                                  keep_logs)
                core._write_all(wfd, json.dumps(agg).encode())
            except BaseException:  # pylint: disable=broad-except
                import traceback
                core._write_all(wfd, json.dumps({'worker_crash': traceback.format_exc()}).encode())
                code = 3
            finally:
                os._exit(code)
        os.close(wfd)
        pipes.append((pid, r))
    total = {'runs': 0, 'events': 0, 'fired': {}, 'probes': {}, 'refs': {}, 'sigs': {},
             'classes': {}, 'violations': [], 'harness': [], 'samples': [], 'logs': {},
             'jdigests': {}, 'sim_time': 0, 'timeouts': 0}
    for pid, r in pipes:
        chunks = []
        while True:
            chunk = os.read(r, 1 << 16)
            if not chunk:
                break
            chunks.append(chunk)
        os.close(r)
        os.waitpid(pid, 0)
        try:
            agg = json.loads(b''.join(chunks).decode())
        except ValueError:
            total['harness'].append({'idx': -1, 'error': 'worker returned no data'})
            continue
        if 'worker_crash' in agg:
            total['harness'].append({'idx': -1, 'error': agg['worker_crash'][-3000:]})
            continue
        for key in ('runs', 'events', 'sim_time', 'timeouts'):
            total[key] += agg[key]
        for key in ('slow_reruns', 'died_reruns'):
            total[key] = total.get(key, 0) + agg.get(key, 0)
        for key in ('fired', 'probes', 'refs', 'classes'):
            merge_counts(total[key], agg[key])
        for sig, nt in agg['sigs'].items():
            total['sigs'][sig] = max(total['sigs'].get(sig, 0), nt)
        total['violations'] += agg['violations']
        total['harness'] += agg['harness']
        total['samples'] += agg['samples']
        total['logs'].update(agg['logs'])
        total['jdigests'].update(agg['jdigests'])
    total['wall_s'] = time.monotonic() - t0
    total['planned_runs'] = runs
    total['baseline'] = baseline
    return total


# ---------------------------------------------------------------------------
# Shrinking and replay files
# ---------------------------------------------------------------------------
def execute_full(world, journal, baseline, timeout=60):
    """execute() in a fresh child, then the run's R3 audits (each in its own pristine child)."""
    def go():
        res = world.execute(journal, baseline)
        if res.get('r3_jobs'):
            res['journal'] = journal
        return res
    status, res = core.run_in_child(go, timeout=timeout)
    if status == 'ok' and res.get('r3_jobs') and hasattr(world, 'audit'):
        res = run_audits(world, res)
    return status, res


def first_violation(res):
    vs = res.get('violations') or []
    return vs[0] if vs else None


def same_violation(v, target):
    return v is not None and v['check'] == target['check'] and \
        v.get('cls', None) == target.get('cls', None)


def shrink(world, journal, target, baseline, budget_s=45.0, max_tests=250):
    """ddmin over the event list, each candidate executed in a fresh fork."""
    deadline = time.monotonic() + budget_s
    events = list(journal['events'])

    def test(cand):
        j = dict(journal)
        j['events'] = cand
        status, res = execute_full(world, j, baseline, timeout=30)
        if status != 'ok':
            return False
        return any(same_violation(v, target) for v in res.get('violations') or [])

    if not events or not test(events):
        return journal, 0, False
    small, used = core.ddmin(events, test, max_tests=max_tests, deadline=deadline)
    # single-event pass
    i = 0
    while i < len(small) and len(small) > 1 and time.monotonic() < deadline and used < max_tests:
        cand = small[:i] + small[i + 1:]
        used += 1
        if test(cand):
            small = cand
        else:
            i += 1
    j = dict(journal)
    j['events'] = small
    if hasattr(world, 'simplify'):
        j, extra = world.simplify(j, lambda jj: _test_journal(world, jj, target, baseline), deadline)
        used += extra
    return j, used, True


def _test_journal(world, j, target, baseline):
    status, res = execute_full(world, j, baseline, timeout=30)
    if status != 'ok':
        return False
    return any(same_violation(v, target) for v in res.get('violations') or [])


def write_replay(world, seed, tier, hashseed, item, baseline, do_shrink=True):
    journal = item['journal']
    target = item['violations'][0]
    rdir = os.environ.get('VERIF_REPLAY_DIR') or os.path.join(core.VERIF_DIR, 'replays')
    os.makedirs(rdir, exist_ok=True)
    base = '%s-s%d-h%s-i%d' % (world.PROP, seed, hashseed, item['idx'])
    full_path = os.path.join(rdir, base + '.full.json')
    doc = {'property': world.PROP, 'seed': seed, 'idx': item['idx'], 'hashseed': str(hashseed),
           'tier': tier, 'journal': journal, 'violation': target, 'minimised': False}
    with open(full_path, 'w') as fh:
        json.dump(doc, fh, indent=1, sort_keys=True)
    path = full_path
    final_v = target
    if do_shrink and journal is not None:
        small, used, ok = shrink(world, journal, target, baseline)
        if ok:
            status, res = execute_full(world, small, baseline, timeout=30)
            vs = [v for v in (res.get('violations') or [])
                  if same_violation(v, target)] if status == 'ok' else []
            if vs:
                final_v = vs[0]
                doc = dict(doc)
                doc.update({'journal': small, 'violation': final_v, 'minimised': True,
                            'original_events': len(journal['events']),
                            'shrink_tests': used})
                path = os.path.join(rdir, base + '.min.json')
                with open(path, 'w') as fh:
                    json.dump(doc, fh, indent=1, sort_keys=True)
    return path, final_v


def cmd_run(args):
    world = get_world(args.prop)
    hashseed = os.environ.get('PYTHONHASHSEED', '')
    total = run_batch(world, args.tier, args.seed, args.runs, args.workers, args.first,
                      args.wall_cap)
    baseline = total.pop('baseline', None)
    reports = []
    seen = set()
    known = set()
    kf = os.path.join(core.VERIF_DIR, 'known_findings.jsonl')
    if os.path.exists(kf):
        with open(kf) as fh:
            for line in fh:
                line = line.strip()
                if line and not line.startswith('#'):
                    ent = json.loads(line)
                    if ent.get('status') == 'known' and ent.get('property') == world.PROP:
                        known.add(ent.get('sig'))
    written = 0
    # shrink a bounded number of violations, distinct by (check, cls, sig); listed known findings
    # are reported without a replay file and do not use up the budget
    for item in sorted(total.get('violations', []), key=lambda it: it['idx']):
        v = item['violations'][0]
        key = (v['check'], v.get('cls'), v.get('sig'))
        if v.get('sig') in known:
            reports.append({'idx': item['idx'], 'violation': v, 'replay': None, 'known': True})
            continue
        if key in seen or written >= args.max_reports:
            reports.append({'idx': item['idx'], 'violation': v, 'replay': None, 'dup': True})
            continue
        seen.add(key)
        if item['journal'] is None:
            reports.append({'idx': item['idx'], 'violation': v, 'replay': None})
            continue
        path, final_v = write_replay(world, args.seed, args.tier, hashseed, item, baseline,
                                     do_shrink=not args.no_shrink)
        written += 1
        reports.append({'idx': item['idx'], 'violation': final_v, 'replay': path})
    total['violations'] = reports
    total['hashseed'] = hashseed
    with open(args.out, 'w') as fh:
        json.dump(total, fh)
    return 0


def cmd_replay(args):
    with open(args.file) as fh:
        doc = json.load(fh)
    world = get_world(doc['property'])
    core.load_lib()
    status, baseline = core.run_in_child(world.baseline, timeout=120)
    if status != 'ok':
        print('HARNESS-ERROR baseline failed: %s' % baseline)
        return 2
    status, res = execute_full(world, doc['journal'], baseline, timeout=120)
    if status == 'timeout':
        print('REPLAY: run hung (wall-clock watchdog)')
        print('VIOLATION property=%s replay=%s' % (doc['property'], args.file))
        return 1
    if status != 'ok':
        print('HARNESS-ERROR %s' % res)
        return 2
    target = doc['violation']
    vs = res.get('violations') or []
    for v in vs:
        print('REPLAY: check=%s event=%s cls=%s\n  %s' % (v['check'], v.get('event'), v.get('cls'),
                                                          v.get('detail')))
    if any(same_violation(v, target) for v in vs):
        print('VIOLATION property=%s replay=%s' % (doc['property'], args.file))
        return 1
    print('REPLAY: recorded violation (%s) not reproduced' % target['check'])
    return 0


def main():
    ap = argparse.ArgumentParser()
    sub = ap.add_subparsers(dest='cmd')
    r = sub.add_parser('run')
    r.add_argument('--prop', required=True)
    r.add_argument('--tier', default='quick')
    r.add_argument('--seed', type=int, default=0)
    r.add_argument('--out', required=True)
    r.add_argument('--runs', type=int, default=0)
    r.add_argument('--workers', type=int, default=16)
    r.add_argument('--first', type=int, default=0)
    r.add_argument('--wall-cap', type=float, default=600.0)
    r.add_argument('--max-reports', type=int, default=4)
    r.add_argument('--no-shrink', action='store_true')
    p = sub.add_parser('replay')
    p.add_argument('--file', required=True)
    args = ap.parse_args()
    if args.cmd == 'run':
        return cmd_run(args)
    if args.cmd == 'replay':
        return cmd_replay(args)
    ap.print_help()
    return 2


if __name__ == '__main__':
    sys.exit(main())
