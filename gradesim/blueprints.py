"""
gradesim.blueprints -- graders and author objects as plain data.

A blueprint is JSON: {'id': 'g0', 'cls': 'FormulaGrader', 'cfg': {...}, 'style': 'kwargs'|'dict',
'dict_id': optional key of a config dict shared between several graders}.
Values inside cfg may be tagged dicts that the Builder turns into the objects an
author would write in a problem's <script>:

  {'__tuple__': [...]}                 tuple
  {'__c__': [re, im]}                  complex
  {'__float__': 'inf'}                 float special
  {'__arr__': nested list}             MathArray
  {'__fn__': {'name':..,'kind':..}}    scripted user function        (stub)
  {'__cmp__': {...}}                   comparer: scripted (stub) or built-in
  {'__credit__': {...}}                attempt-credit schedule: built-in class or scripted
  {'__obj__': {'cls':..,'cfg':..}}     any library ObjectWithSchema (samplers, comparers ...)
  {'__sim__': {'cls':..,'cfg':..}}     SimSampler / SimFunctionSet / SimItemGrader (stub)
  {'__grader__': blueprint}            nested grader built inline
  {'__ref__': id}                      an object built earlier in the world and shared

Because everything is data, any grader can be rebuilt identically at any time:
that is what makes the "fresh instance" reference model (R1) possible.
"""
from gradesim.core import load_lib, digest
from gradesim import seams


def _lib_classes():
    lib = load_lib()
    m = lib.mitx
    names = ['StringGrader', 'FormulaGrader', 'NumericalGrader', 'MatrixGrader',
             'SingleListGrader', 'ListGrader', 'IntervalGrader', 'SumGrader', 'IntegralGrader',
             'RealInterval', 'IntegerRange', 'DiscreteSet', 'ComplexRectangle', 'ComplexSector',
             'RandomFunction', 'SpecificFunctions', 'DependentSampler',
             'RealVectors', 'ComplexVectors', 'RealMatrices', 'ComplexMatrices',
             'RealTensors', 'ComplexTensors', 'IdentityMatrixMultiples', 'SquareMatrices',
             'LinearCredit', 'GeometricCredit', 'ReciprocalCredit',
             'MatrixEntryComparer', 'LinearComparer']
    out = {n: getattr(m, n) for n in names}
    out['AbstractGrader'] = lib.base.AbstractGrader
    out['ItemGrader'] = lib.base.ItemGrader
    out['ArraySamplingSet'] = lib.matrixsampling.ArraySamplingSet
    return out


_CLASSES = {}


def cls_by_name(name):
    if not _CLASSES:
        _CLASSES.update(_lib_classes())
        _CLASSES.update(seams.sim_classes())
    return _CLASSES[name]


BUILTIN_COMPARERS = ['equality_comparer', 'congruence_comparer', 'between_comparer',
                     'eigenvector_comparer', 'vector_span_comparer', 'vector_phase_comparer']


class Builder(object):
    def __init__(self, env, resolve_ref=None):
        self.env = env
        self.registry = {}       # id -> built object (shared objects, top-level graders)
        self.dicts = {}          # dict_id -> the author's (shared) config dict
        self.author = []         # [label, object handed to the library, pristine digest]
        self.all_graders = []    # every grader object built (top-level, nested, shared)
        self.resolve_ref = resolve_ref

    # -- data -> objects ---------------------------------------------------
    def decode(self, data):
        lib = load_lib()
        if isinstance(data, list):
            return [self.decode(x) for x in data]
        if not isinstance(data, dict):
            return data
        if len(data) == 1:
            (tag, val), = data.items()
            if tag == '__tuple__':
                return tuple(self.decode(x) for x in val)
            if tag == '__c__':
                return complex(val[0], val[1])
            if tag == '__float__':
                return float(val)
            if tag == '__arr__':
                return lib.math_array.MathArray(self.decode(val))
            if tag == '__fn__':
                return seams.make_fn(val['name'], val, self.env)
            if tag == '__cmp__':
                return self._comparer(val)
            if tag == '__credit__':
                return self._credit(val)
            if tag == '__obj__':
                return self._obj(val)
            if tag == '__sim__':
                obj = self._obj(val)
                obj.env = self.env
                return obj
            if tag == '__grader__':
                return self.build(val)
            if tag == '__ref__':
                if val in self.registry:
                    return self.registry[val]
                if self.resolve_ref is None:
                    raise KeyError('unresolved reference %r' % val)
                obj = self.resolve_ref(val, self)
                self.registry[val] = obj
                return obj
        return {k: self.decode(v) for k, v in data.items()}

    def _construct(self, cls, cfg, style=None):
        if isinstance(cfg, dict) and style != 'dict':
            return cls(**cfg)
        if cfg is None:
            return cls()
        return cls(cfg)

    def _obj(self, val):
        cls = cls_by_name(val['cls'])
        cfg = self.decode(val.get('cfg'))
        return self._construct(cls, cfg, val.get('style'))

    def _comparer(self, val):
        lib = load_lib()
        if 'builtin' in val:
            return getattr(lib.comparers, val['builtin'])
        if 'cls' in val:
            return self._obj(val)
        return seams.make_comparer(val['name'], val, self.env)

    def _credit(self, val):
        if 'cls' in val:
            return self._obj(val)
        return seams.make_credit(val['name'], val, self.env)

    # -- blueprints -> graders -----------------------------------------------
    def predecode(self, bp):
        """Decode a shared config dictionary now (the author wrote it, with its nested objects,
        at this point of the history); a later build() of any tenant using it finds it here."""
        dict_id = bp.get('dict_id')
        if dict_id is None or dict_id in self.dicts:
            return
        cfg = self.decode(bp.get('cfg', {}))
        self.dicts[dict_id] = cfg
        self.author.append([bp.get('id', bp['cls']) + ':cfg', cfg, digest(cfg, True)])

    def build(self, bp):
        cls = cls_by_name(bp['cls'])
        dict_id = bp.get('dict_id')
        if dict_id is not None and dict_id in self.dicts:
            cfg = self.dicts[dict_id]
        else:
            cfg = self.decode(bp.get('cfg', {}))
            if dict_id is not None:
                self.dicts[dict_id] = cfg
            self.author.append([bp.get('id', bp['cls']) + ':cfg', cfg, digest(cfg, True)])
        style = bp.get('style', 'kwargs')
        if style == 'dict' or dict_id is not None:
            obj = cls(cfg)
        else:
            obj = cls(**cfg)
        if bp['cls'] in ('SimItemGrader', 'SimSampler', 'SimFunctionSet'):
            obj.env = self.env
        self.count = getattr(self, 'count', 0) + 1
        obj.sim_label = bp.get('id') or ('%s#%d' % (bp['cls'], self.count))
        if isinstance(obj, load_lib().base.AbstractGrader):
            self.all_graders.append(obj)
        if bp.get('id') is not None:
            self.registry[bp['id']] = obj
        return obj

    def author_violations(self):
        """I-author: every object handed to the library still equals its pristine snapshot."""
        bad = []
        for label, obj, pristine in self.author:
            now = digest(obj, True)
            if now != pristine:
                bad.append(label)
        return bad
