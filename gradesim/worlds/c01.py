"""
C01 -- every grader call returns a well-formed, self-consistent edX result.

I-struct is a monitored invariant: it is evaluated on every returned result in the reached
states of several worlds -- a dedicated mixed-tenants world (every grader class and nesting,
partial credit, messages, attempt credit, debug on/off, hostile and empty inputs) and the
worlds of C02, C11 and C17 re-run with this oracle -- i.e. after failed calls, after expect
changes, under edge draws, with shared subgraders, not only on fresh graders.
"""
import copy

from gradesim.worlds.tenants import TenantWorld
from gradesim.worlds import c02, c11, c17

MIXED = {
    'prop': 'C01', 'name': 'c01-mixed',
    'kinds': {'string': 2, 'formula': 3, 'numerical': 1.5, 'matrix': 2.5, 'simitem': 2,
              'singlelist': 3, 'interval': 2, 'sum': 1, 'list': 4, 'integral': 0.4},
    'n_tenants': (1, 5),
    'len': {'quick': (2, 30), 'thorough': (2, 60)},
    'runs': {'quick': 3200, 'thorough': 50000},
    'p_fault_free': 0.4,
    'p_dict_reuse': 0.1,
    'p_credit': 0.4,
    'credit_grid': True,
    'p_stay': 0.6,
    'hostile': 0.25,
    'faults': {'F1': 0.05, 'F2': 0.15, 'F3': 0.0, 'F4': 0.25, 'F5': 0.05, 'F6': 0.05, 'F9': 0.0,
               'reg': 0.05, 'eval': 0.0, 'cmp': 0.02},
    'judges': ['struct'],
}


def as_struct(profile, name):
    p = copy.deepcopy(profile)
    p['prop'] = 'C01'
    p['name'] = name
    p['judges'] = ['struct']
    p['faults'] = dict(p['faults'])
    p['faults']['F3'] = 0.0          # F3 needs the replica; the struct monitor does not build one
    p['faults']['budget'] = 0.0
    return p


class C01World(object):
    PROP = 'C01'

    def __init__(self):
        self.worlds = [TenantWorld(MIXED), TenantWorld(MIXED),
                       TenantWorld(as_struct(c02.PROFILE, 'c02-as-c01')),
                       TenantWorld(as_struct(c11.PROFILE, 'c11-as-c01')),
                       TenantWorld(as_struct(c17.PROFILE, 'c17-as-c01'))]
        self.by_name = {w.profile['name']: w for w in self.worlds}

    def plan(self, tier):
        return {'runs': MIXED['runs'][tier], 'timeout': 90.0}

    def baseline(self):
        return {}

    def generate(self, rng, tier, idx):
        w = self.worlds[rng.randrange(len(self.worlds))]
        return w.generate(rng, tier, idx)

    def execute(self, journal, baseline):
        return self.by_name[journal['profile']].execute(journal, baseline)


WORLD = C01World()
