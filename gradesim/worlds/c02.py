"""C02 -- grading failures surface only as library errors with student-safe messages."""
from gradesim.worlds.tenants import TenantWorld

PROFILE = {
    'prop': 'C02', 'name': 'c02',
    'kinds': {'string': 1.5, 'formula': 4, 'numerical': 2, 'matrix': 3.5, 'simitem': 1.5,
              'singlelist': 2.5, 'interval': 2.5, 'sum': 1.2, 'list': 2.5, 'integral': 0.5},
    'n_tenants': (1, 4),
    'len': {'quick': (2, 24), 'thorough': (2, 50)},
    'runs': {'quick': 3000, 'thorough': 40000},
    'p_fault_free': 0.3,
    'p_dict_reuse': 0.05,
    'p_credit': 0.08,
    'p_stay': 0.5,
    'hostile': 0.5,
    'budget': 5000000,
    'faults': {'F1': 0.3, 'F2': 0.2, 'F3': 0.1, 'F4': 0.2, 'F5': 0.1, 'F6': 0.1, 'F9': 0.0,
               'reg': 0.06, 'eval': 0.0, 'budget': 0.12, 'anticipated': 0.06},
    'judges': ['family'],
}

WORLD = TenantWorld(PROFILE)
