"""
gradesim.worlds.tenants -- the tenant world engine shared by C01, C02, C11 and C17.

One run = one world: several long-lived graders (tenants) built from blueprints, simulated
authors / students / an edX runtime delivering grader(expect, input, attempt=n) calls, in a
journal of events decided entirely by the run's PRNG.  The journal is pure data and
self-contained: execute() never consults a PRNG.

Event kinds
  build      an author constructs tenant g (tenants never built explicitly are built
             pristine on first use, which also makes event dropping valid when shrinking)
  build_bad  F9: an author constructs a grader from an invalid config; must raise, no trace
  register / clear   class-wide defaults (author-global operations, part of the model)
  call       edX delivers a submission: expect, input, attempt, sub-seed, faults
  eval       a parser client calls evaluator() with simulator-owned scopes

Oracles (selected per profile): R1 fresh-instance replica, I-author, I-others, R2 baseline
probes, I-struct (C01), I-family and scripted-error rules (C02), attempt-credit rules (C17).
"""
import copy
import re

from gradesim import core, seams, probes
from gradesim.blueprints import Builder, cls_by_name
from gradesim.core import load_lib, outcome, outcome2, short, digest, canon
from gradesim.gen import problems as P

REG_CLASSES = ['AbstractGrader', 'ItemGrader', 'StringGrader', 'FormulaGrader', 'NumericalGrader',
               'MatrixGrader', 'SingleListGrader', 'IntervalGrader', 'ListGrader', 'SumGrader', 'IntegralGrader']

# values an author could plausibly register course-wide (cf. plugins/defaults_sample.py)
REG_VALUES = {
    'AbstractGrader': [{'debug': True}, {'suppress_warnings': True},
                       {'attempt_based_credit': {'__credit__': {'cls': 'ReciprocalCredit', 'cfg': {}}},
                        'attempt_based_credit_msg': True},
                       {'attempt_based_credit': {'__credit__': {'cls': 'LinearCredit', 'cfg': {}}}},
                       {'attempt_based_credit_msg': False}],
    'ItemGrader': [{'wrong_msg': 'registered wrong_msg'}, {'debug': True}],
    'StringGrader': [{'case_sensitive': False}, {'strip_all': True}, {'debug': True},
                     {'clean_spaces': False}],
    'FormulaGrader': [{'tolerance': '1%'}, {'user_constants': {'kk': 2.5}}, {'metric_suffixes': True},
                      {'tolerance': 0.001}],
    'NumericalGrader': [{'tolerance': '0.1%'}, {'tolerance': 0}],
    'MatrixGrader': [{'entry_partial_credit': 'proportional'}, {'shape_errors': False},
                     {'negative_powers': False}, {'suppress_matrix_messages': True}],
    'SingleListGrader': [{'ordered': True}, {'partial_credit': False}, {'length_error': True}],
    'IntervalGrader': [{'partial_credit': False}],
    'ListGrader': [{'partial_credit': False}],
    'SumGrader': [{'tolerance': '1%'}],
    'IntegralGrader': [{'tolerance': '1%'}],
}

CMP_CLASSES = ['FormulaGrader', 'NumericalGrader', 'MatrixGrader']
DEFAULT_COMPARERS = {
    'FormulaGrader': [{'__cmp__': {'cls': 'LinearComparer', 'cfg': {}}},
                      {'__cmp__': {'name': 'default.fcmp', 'kind': 'equal_tagged'}},
                      {'__cmp__': {'name': 'default.fcmp2', 'kind': 'equal_tagged'}},
                      {'__cmp__': {'builtin': 'equality_comparer'}}],
    'NumericalGrader': [{'__cmp__': {'name': 'default.ncmp', 'kind': 'equal_tagged'}},
                        {'__cmp__': {'name': 'default.ncmp2', 'kind': 'equal_tagged'}},
                        {'__cmp__': {'builtin': 'equality_comparer'}}],
    'MatrixGrader': [{'__cmp__': {'cls': 'MatrixEntryComparer', 'cfg': {'entry_partial_credit': 0.5}}},
                     {'__cmp__': {'name': 'default.mcmp', 'kind': 'equal_tagged'}},
                     {'__cmp__': {'builtin': 'equality_comparer'}}],
}

CREDITS = [
    {'__credit__': {'cls': 'LinearCredit', 'cfg': {}}},
    {'__credit__': {'cls': 'LinearCredit', 'cfg': {'decrease_credit_after': 2, 'minimum_credit': 0.1,
                                                    'decrease_credit_steps': 3}}},
    {'__credit__': {'cls': 'GeometricCredit', 'cfg': {'factor': 0.5}}},
    {'__credit__': {'cls': 'GeometricCredit', 'cfg': {}}},
    {'__credit__': {'cls': 'ReciprocalCredit', 'cfg': {}}},
]

BAD_CONFIGS = [
    {'cls': 'StringGrader', 'cfg': {'answers': 'cat', 'no_such_option': 1}},
    {'cls': 'StringGrader', 'cfg': {'answers': 5}},
    {'cls': 'FormulaGrader', 'cfg': {'answers': 'x', 'variables': ['x'], 'whitelist': ['sin'],
                                     'blacklist': ['cos']}},
    {'cls': 'FormulaGrader', 'cfg': {'answers': 'x', 'variables': ['x', 'x']}},
    {'cls': 'FormulaGrader', 'cfg': {'answers': 'x', 'samples': 0}},
    {'cls': 'FormulaGrader', 'cfg': {'answers': 'x', 'tolerance': -1}},
    {'cls': 'FormulaGrader', 'cfg': {'answers': 'x', 'sample_from': {'zz': [1, 2]}}},
    {'cls': 'FormulaGrader', 'cfg': {'answers': 'x', 'user_constants': {'e': None, 'x': 2},
                                     'variables': ['x']}},
    {'cls': 'NumericalGrader', 'cfg': {'answers': '1', 'samples': 3}},
    {'cls': 'MatrixGrader', 'cfg': {'answers': 'A', 'variables': ['A'], 'allow_inf': True}},
    {'cls': 'SingleListGrader', 'cfg': {'answers': ['a', 'b']}},
    {'cls': 'SingleListGrader', 'cfg': {'answers': ['a', ''],
                                        'subgrader': {'__grader__': {'cls': 'StringGrader', 'cfg': {}}}}},
    {'cls': 'SingleListGrader', 'cfg': {'subgrader': {'__grader__': {
        'cls': 'SingleListGrader', 'cfg': {'subgrader': {'__grader__': {'cls': 'StringGrader', 'cfg': {}}}}}}}},
    {'cls': 'ListGrader', 'cfg': {'answers': ['a'],
                                  'subgraders': {'__grader__': {'cls': 'StringGrader', 'cfg': {}}}}},
    {'cls': 'ListGrader', 'cfg': {'answers': ['a', 'b'], 'ordered': False, 'subgraders': [
        {'__grader__': {'cls': 'StringGrader', 'cfg': {}}}, {'__grader__': {'cls': 'StringGrader', 'cfg': {}}}]}},
    {'cls': 'ListGrader', 'cfg': {'answers': ['a', 'b'], 'grouping': [1, 3],
                                  'subgraders': {'__grader__': {'cls': 'StringGrader', 'cfg': {}}}}},
    {'cls': 'IntervalGrader', 'cfg': {'answers': '{1,2}'}},
    {'cls': 'IntervalGrader', 'cfg': {'answers': ['[', '1', '2']}},
    {'cls': 'IntervalGrader', 'cfg': {'answers': '[1,2)', 'opening_brackets': ''}},
    {'cls': 'SumGrader', 'cfg': {'answers': {'lower': '1', 'upper': '2', 'summand': 'n'}}},
    {'cls': 'SumGrader', 'cfg': {'answers': {'lower': '1', 'upper': '2', 'summand': 'n',
                                             'summation_variable': 'n'},
                                 'input_positions': {'lower': 1, 'upper': 1}}},
]

# anticipated problems with their documented student-facing error class
ANTICIPATED = [
    ('1/0', 'CalcZeroDivisionError'), ('[1,0]/0', 'CalcZeroDivisionError'), ('[1,2]/0', 'CalcZeroDivisionError'),
    ('ln(0)', 'CalcZeroDivisionError'), ('cot(0)', 'CalcZeroDivisionError'), ('log10(0)', 'CalcZeroDivisionError'),
    ('0^-1', 'CalcZeroDivisionError'), ('[1,0]/[0]', 'CalcZeroDivisionError'), ('1/0+[1,2]', 'CalcZeroDivisionError'),
    ('[1,2]*(1/0)', 'CalcZeroDivisionError'), ('[3,0,1e-300]/0', 'CalcZeroDivisionError'),
    ('2^2000', 'CalcOverflowError'), ('exp(1000)', 'CalcOverflowError'), ('sinh(1000)', 'CalcOverflowError'),
    ('[1e200,1e200]*[1e200,1e200]', 'CalcOverflowError'), ('[1e-200,1e200]*[1e-200,1e200]', 'CalcOverflowError'),
    ('10^10^10', 'CalcOverflowError'), ('1e308*10', 'CalcOverflowError'), ('[1e308,1]*10', 'CalcOverflowError'),
    ('[[1e200,0],[0,1e200]]^2', 'CalcOverflowError'), ('arctan2(0,0)', 'FunctionEvalError'),
    ('(x', 'UnbalancedBrackets'), ('1+', 'UnableToParse'), ('zz+1', 'UndefinedVariable'), ('zz(1)', 'UndefinedFunction'),
    ('sin(1,2)', 'ArgumentError'),
    ('[[1,2],[3,4]]^0.5', 'MathArrayError'), ('[[1,2],[3,4]]^i', 'MathArrayError'),
    ('[[1,2],[3,4]]^(1+2*i)', 'MathArrayError'), ('[[1,1],[1,1]]^-1', 'MathArrayError'),
    ('[[1,2],[3,4]]^sqrt(-4)', 'MathArrayError'),
    # names with tensor indices, submitted with the wrong case (the "did you mean" hint)
    ('A_{1}+1', 'UndefinedVariable'), ('t_{ij}^{k}*2', 'UndefinedVariable'), ('a_{1}+T_{IJ}^{k}', 'UndefinedVariable'),
    ('a_{1}+zz', 'UndefinedVariable'), ('F_{2}(1)', 'UndefinedFunction'),
    # names reserved for the author: instructor-only variables and sibling inputs, also when the
    # submission is character for character the author's own answer
    ('@braces:(1,2}', 'InvalidInput'), ('@braces:{1,2)', 'InvalidInput'), ('@braces:<1,2}', 'InvalidInput'),
    ('@bracesexpect:(1,2}', 'ConfigError'), ('@bracesexpect:{1,2>', 'ConfigError'),
    # integer-valued built-ins must not switch the evaluator to exact integer arithmetic:
    # 2^2^2^2^2 overflows whichever way the twos are written
    ('(kronecker(1,1)+kronecker(1,1))^(kronecker(1,1)+kronecker(1,1))^(kronecker(1,1)+kronecker(1,1))^'
     '(kronecker(1,1)+kronecker(1,1))^(kronecker(1,1)+kronecker(1,1))', 'CalcOverflowError'),
    ('2^2^2^2^2', 'CalcOverflowError'), ('(1+kronecker(2,2))^2000', 'CalcOverflowError'),
    # a sibling box that is blank, or only whitespace
    ('@siblingblank:', 'MissingInput'), ('@siblingblank: ', 'MissingInput'), ('@siblingblank:\t', 'MissingInput'),
    # a blank box of a SumGrader is a missing input too
    ('@sumblank:', 'MissingInput'), ('@sumblank: ', 'MissingInput'), ('@sumblank:\t', 'MissingInput'),
    # odd delimiters: whatever the constructor accepts must still end in a result or a library
    # error, also on the expect-inference path ('ANY' = no particular class)
    ('@delim:', 'ANY'), ('@delim: ', 'ANY'), ('@delim:ab', 'ANY'), ('@delim:\n', 'ANY'),
    ('@intervaldelim:', 'ANY'), ('@intervaldelim:;', 'ANY'),
    ('@instructor:x*c', 'UndefinedVariable'), ('@instructor:c', 'UndefinedVariable'),
    ('@instructor:x * c', 'UndefinedVariable'), ('@sibling:sibling_2+1', 'UndefinedVariable'),
    ('@sibling:sibling_2 + 1', 'UndefinedVariable'),
    # (shape errors are not listed: whether they are raised or graded depends on options that
    # an author may have registered class-wide)
]

EVAL_FORMULAS = ['x+y', 'f(x)*2', 'M*v', 'M^-1*v', 'M^2', 'x^y^2', 'f(f(x))', 'x/0', 'M+x', 'v*v',
                 'sin(x)+cos(y)', 'zz+1', 'f(x,y)', 'x +', '[x,y]*v', 'M*M^-1', '2k+x', 'x%']


def decode_input(data):
    if isinstance(data, list):
        return [decode_input(x) for x in data]
    if isinstance(data, dict):
        if '__bytes__' in data:
            return data['__bytes__'].encode()
        if '__tuple__' in data:
            return tuple(decode_input(x) for x in data['__tuple__'])
    return data


def strings_in(obj, out):
    if isinstance(obj, str):
        out.add(obj)
    elif isinstance(obj, (list, tuple)):
        for x in obj:
            strings_in(x, out)
    elif isinstance(obj, dict):
        for x in obj.values():
            strings_in(x, out)


TAG = re.compile(r'\{([\w.]+)\|([^}]*)\}')
TAGHEAD = re.compile(r'\{(g\d+|s\d+)\.[\w.]+\|')
BANNER = 'MITx Grading Library Version'


class TenantWorld(object):
    def __init__(self, profile):
        self.profile = profile
        self.PROP = profile['prop']

    # ------------------------------------------------------------------
    def plan(self, tier):
        return {'runs': self.profile['runs'][tier], 'timeout': 90.0}

    def baseline(self):
        return {'probes': probes.probe_suite()}

    # ------------------------------------------------------------------
    # generation (pure function of the PRNG)
    # ------------------------------------------------------------------
    def generate(self, rng, tier, idx):
        prof = self.profile
        kinds = list(prof['kinds'].keys())
        # swarm: each run enables a random subset of the template kinds
        enabled = [k for k in kinds if rng.random() < 0.6] or [P.pick(rng, kinds)]
        weights = [prof['kinds'][k] for k in enabled]
        fault_free = rng.random() < prof.get('p_fault_free', 0.35)
        rates = {}
        for f, p in prof['faults'].items():
            if fault_free and f in ('F1', 'F2', 'F3', 'F4', 'F5', 'F6', 'F9'):
                rates[f] = 0.0
            else:
                # swarm: each fault kind is on in about two thirds of fault-injecting runs
                rates[f] = p if rng.random() < 0.67 else 0.0
        # swarm themes: some runs concentrate on one corner of the tenant space
        theme = rng.choices(['mixed', 'matrix', 'lists', 'inferring', 'comparers', 'marathon'],
                            [0.53, 0.15, 0.12, 0.1, 0.08, 0.02])[0] if prof.get('themes', True) else 'mixed'
        if theme == 'comparers' and rates.get('cmp', 0) > 0 and 'numerical' in kinds:
            # class-wide default comparers changed and reset while math graders are built and infer
            enabled, weights = ['formula', 'numerical', 'matrix'], [2, 2, 2]
            rates['cmp'] = 0.3
        if theme == 'matrix' and 'matrix' in kinds:
            enabled, weights = ['matrix', 'formula'], [3, 1]
            if not fault_free:
                rates['F6'] = max(rates.get('F6', 0), 0.45)
        elif theme == 'lists' and 'list' in kinds:
            enabled, weights = ['list', 'singlelist', 'simitem'], [2, 2, 1]
        n_ten = rng.randint(*prof['n_tenants'])
        if theme == 'marathon':
            n_ten = rng.randint(1, 2)
            for k in rates:
                rates[k] = rates[k] * 0.3
        shared = {}
        n_shared = rng.choice([0, 1, 1, 2]) if prof.get('shared', True) else 0
        for k in range(n_shared):
            sid = 's%d' % k
            shared[sid] = P.shared_sub(rng, sid)
        tenants = {}
        order = []
        for k in range(n_ten):
            gid = 'g%d' % k
            kind = rng.choices(enabled, weights)[0]
            if order and rng.random() < prof.get('p_dict_reuse', 0.0):
                # a second grader built from the very same config dictionary
                src = tenants[P.pick(rng, order)]
                if src['bp']['cls'] in ('StringGrader', 'IntervalGrader', 'FormulaGrader',
                                        'NumericalGrader'):
                    tp = copy.deepcopy(src)
                    did = src['bp'].get('dict_id') or ('d_' + src['bp']['id'])
                    src['bp']['dict_id'] = did
                    tp['bp']['dict_id'] = did
                    tp['bp']['id'] = gid
                    tp['kindname'] = src['kindname']
                    tenants[gid] = tp
                    order.append(gid)
                    continue
            fn = P.TEMPLATES[kind]
            if kind in ('singlelist', 'list'):
                tp = fn(rng, gid, shared=list(shared.values()) or None)
            elif kind == 'matrix':
                tp = fn(rng, gid, theme=(theme == 'matrix'))
            elif theme in ('inferring', 'comparers') and kind in ('string', 'formula', 'numerical', 'simitem', 'interval'):
                tp = fn(rng, gid, configured=False)
            else:
                tp = fn(rng, gid)
            tp['kindname'] = kind
            if rng.random() < prof.get('p_credit', 0.0):
                tp['bp']['cfg']['attempt_based_credit'] = self.gen_credit(rng, gid)
                if rng.random() < 0.4:
                    tp['bp']['cfg']['attempt_based_credit_msg'] = rng.random() < 0.5
                tp['credit'] = True
            if rng.random() < 0.3:
                tp['bp']['style'] = 'dict'
            tenants[gid] = tp
            order.append(gid)
        for sid, sh in shared.items():
            if rng.random() < 0.6:
                # the author also uses the shared subgrader on its own (one object, two roles)
                tenants[sid] = {'bp': sh['bp'], 'configured': False, 'kind': 'text', 'kindname': 'shared',
                                'pal': {'right': list(sh['items']['right']), 'wrong': list(sh['items']['wrong']),
                                        'malformed': list(sh['items']['bad'])},
                                'expects': {'valid': list(sh['items']['right'][:3]), 'invalid': []},
                                'targets': sh['targets'], 'depth': 0, 'debug': False}
                order.append(sid)
        n_ev = rng.randint(*prof['len'][tier])
        if theme == 'marathon':
            # delayed effects (counters, growing caches, the N-th call): one or two tenants, a long
            # history of mostly ordinary calls
            n_ev = rng.randint(120, 320)
        events = []
        upfront = [g for g in order if rng.random() < 0.7]
        for g in upfront:
            events.append({'op': 'build', 'g': g})
        # students are somewhere along their timeline when the run starts
        attempts = {g: rng.choice([0, 0, 0, 1, 2, 3, 4, 5, 6, 9, 30]) for g in order}
        cur = P.pick(rng, order)
        reg_on = rates.get('reg', 0) > 0
        for _ in range(n_ev):
            r = rng.random()
            if reg_on and r < rates['reg']:
                cname = P.pick(rng, REG_CLASSES)
                if rng.random() < 0.3:
                    events.append({'op': 'clear', 'cls': cname})
                else:
                    events.append({'op': 'register', 'cls': cname,
                                   'values': P.pick(rng, REG_VALUES[cname])})
                continue
            if rng.random() < rates.get('cmp', 0):
                cname = P.pick(rng, CMP_CLASSES)
                if rng.random() < 0.3:
                    events.append({'op': 'reset_comparer', 'cls': cname})
                else:
                    events.append({'op': 'set_comparer', 'cls': cname,
                                   'spec': copy.deepcopy(P.pick(rng, DEFAULT_COMPARERS[cname]))})
                continue
            r = rng.random()
            if r < rates.get('F9', 0):
                events.append({'op': 'build_bad', 'bp': copy.deepcopy(P.pick(rng, BAD_CONFIGS)),
                               'style': P.pick(rng, ['kwargs', 'dict'])})
                continue
            if r < rates.get('F9', 0) + rates.get('eval', 0):
                events.append({'op': 'eval', 'formula': P.pick(rng, EVAL_FORMULAS),
                               'subseed': rng.getrandbits(31),
                               'faults': self.gen_eval_faults(rng, rates)})
                continue
            if rng.random() < rates.get('anticipated', 0):
                events.append({'op': 'anticipated', 'case': rng.randrange(len(ANTICIPATED)),
                               'via': P.pick(rng, ['matrix', 'numerical', 'list']), 'subseed': rng.getrandbits(31)})
                continue
            if r < rates.get('F9', 0) + rates.get('eval', 0) + 0.04:
                late = [g for g in order if g not in upfront]
                if late:
                    events.append({'op': 'build', 'g': P.pick(rng, late)})
                    continue
            if rng.random() > prof.get('p_stay', 0.55):
                cur = P.pick(rng, order)
            events.append(self.gen_call(rng, cur, tenants, order, rates, attempts))
            if rng.random() < rates.get('F5', 0) * 0.7 and not events[-1].get('headroom'):
                # edX delivers the very same submission twice
                dup = copy.deepcopy(events[-1])
                dup['dup'] = True
                dup['faults'] = [f for f in dup['faults'] if f['kind'] not in ('F6',)] + \
                    [{'kind': 'F5', 'what': 'duplicate-delivery'}]
                events[-1]['faults'] = [f for f in events[-1]['faults'] if f['kind'] != 'F6']
                events.append(dup)
        extra = []
        if prof.get('credit_grid'):
            # a few more schedule objects from the parameter grids, swept at the end of the run
            extra = [self.gen_credit(rng, 'x%d' % k) for k in range(4)]
        return {'world': 'tenants', 'profile': prof['name'], 'tenants': tenants, 'shared': shared,
                'events': events, 'fault_free': fault_free, 'r3': rng.random() < prof.get('r3', 0.0),
                'extra_schedules': extra}

    def gen_credit(self, rng, gid):
        if self.profile.get('credit_grid') and rng.random() < 0.8:
            r = rng.random()
            if r < 0.5:
                return {'__credit__': {'cls': 'LinearCredit', 'cfg': {
                    'decrease_credit_after': rng.randint(1, 6), 'decrease_credit_steps': rng.randint(1, 6),
                    # (also minima that four decimals cannot represent)
                    'minimum_credit': rng.choice([0, 0.1, 0.2, 0.5, 1, 1.0 / 3, 0.00004, 0.123456, 0.99996])}}}
            if r < 0.85:
                return {'__credit__': {'cls': 'GeometricCredit', 'cfg': {
                    'factor': rng.choice([0, 0.01, 0.1, 0.1, 0.3, 0.5, 0.75, 0.9, 1])}}}
            return {'__credit__': {'cls': 'ReciprocalCredit', 'cfg': {}}}
        if rng.random() < 0.2:
            table = P.pick(rng, [[1, 0.5, 0.25], [1, 1, 0], [1.0, 0.75, 0.5, 0.25, 0], [1, 0.33333]])
            return {'__credit__': {'name': gid + '.credit', 'table': table}}
        c = copy.deepcopy(P.pick(rng, CREDITS))
        return c

    def gen_eval_faults(self, rng, rates):
        if rng.random() < rates.get('F1', 0):
            return [{'kind': 'F1', 'target': 'scope.f', 'k': rng.randrange(2),
                     'exc': P.pick(rng, seams.EXC_NAMES_PLAIN + seams.EXC_NAMES_LIB),
                     'msg': 'scripted\nfailure', 'where': 'fn'}]
        return []

    def gen_call(self, rng, gid, tenants, order, rates, attempts):
        tp = tenants[gid]
        ev = {'op': 'call', 'g': gid, 'subseed': rng.getrandbits(31), 'faults': []}
        # expect
        if tp['configured']:
            if rng.random() < 0.15 and tp['kind'] == 'text':
                ev['expect'] = P.pick(rng, ['cat', 'x+1', '[1,2)', 'a,b'])
                ev['ecls'] = 'ignored'
            else:
                ev['expect'] = None
                ev['ecls'] = 'absent'
        else:
            r = rng.random()
            valid, invalid = tp['expects']['valid'], tp['expects']['invalid']
            if r < 0.35:
                ev['expect'], ev['ecls'] = None, 'absent'
            elif r < 0.65 or not invalid and r >= 0.85:
                ev['expect'], ev['ecls'] = valid[0], 'valid'
            elif r < 0.85:
                ev['expect'], ev['ecls'] = P.pick(rng, valid[1:] or valid), 'other'
            else:
                ev['expect'], ev['ecls'] = P.pick(rng, invalid), 'invalid'
        # input
        pal = tp['pal']
        targets = tp.get('targets') or []
        fns = [t for t in targets if t['where'] == 'fn']
        want_f6 = bool(fns) and rng.random() < rates.get('F6', 0)
        r = rng.random()
        p5 = rates.get('F5', 0)
        if r < p5:
            pool = P.WRONG_KIND_TEXT if tp['kind'] == 'text' else P.WRONG_KIND_LIST
            if tp['bp']['cls'] in ('SumGrader', 'IntegralGrader'):
                pool = [5, None, ['1', 5, 'n', 'n'], {'__tuple__': ['1', '2', 'n', 'n']}]
            ev['input'], ev['icls'] = copy.deepcopy(P.pick(rng, pool)), 'wrongkind'
            ev['faults'].append({'kind': 'F5', 'what': 'wrongkind'})
        else:
            cats = [('right', 0.4), ('wrong', 0.25), ('malformed', 0.25)]
            if pal.get('neg'):
                cats.append(('neg', 1.5 if want_f6 else 0.3))
            cats = [(c, w) for c, w in cats if pal.get(c)]
            cat = rng.choices([c for c, _ in cats], [w for _, w in cats])[0]
            ev['input'], ev['icls'] = copy.deepcopy(P.pick(rng, pal[cat])), cat
            hostile = self.profile.get('hostile')
            if hostile and rng.random() < hostile:
                from gradesim.gen import hostile as H
                ev['input'], ev['icls'] = H.hostile_input(rng, tp, ev['input']), 'hostile'
        # attempt (the only clock): a student's counter advances; edX may misdeliver
        has_credit = bool(tp.get('credit'))
        if has_credit or rng.random() < 0.15:
            attempts[gid] += 1
            n = attempts[gid]
            r = rng.random()
            if r < p5 * 2.0:
                mis = P.pick(rng, ['missing', 'zero', 'negative', 'repeat', 'decrease', 'float'])
                ev['faults'].append({'kind': 'F5', 'what': 'attempt-' + mis})
                if mis == 'missing':
                    n = None
                elif mis == 'zero':
                    n = 0
                elif mis == 'negative':
                    n = -rng.randint(1, 5)
                elif mis == 'repeat':
                    attempts[gid] -= 1
                    n = max(attempts[gid], 1)
                elif mis == 'decrease':
                    n = max(1, n - rng.randint(1, 3))
                elif mis == 'float':
                    n = float(n)
            if n is not None:
                ev['attempt'] = n
        # F1 / F2 / F6 on the tenant's stubs
        if targets and rng.random() < rates.get('F1', 0):
            t = P.pick(rng, targets)
            ev['faults'].append({'kind': 'F1', 'target': t['name'], 'where': t['where'],
                                 'k': rng.randrange(max(1, t['n'])),
                                 'exc': P.pick(rng, seams.EXC_NAMES_PLAIN + seams.EXC_NAMES_LIB * 3),
                                 'msg': P.pick(rng, ['scripted failure', 'line one\nline two',
                                                     'bad <b>thing</b>\n\nhappened'])})
        if fns and rng.random() < rates.get('F2', 0):
            t = P.pick(rng, fns)
            ev['faults'].append({'kind': 'F2', 'target': t['name'], 'k': rng.randrange(max(1, t['n'])),
                                 'cast': P.pick(rng, ['np.float64', '0d', 'complex0', 'int', 'np.int64'])})
        if want_f6:
            others = [g for g in order if g != gid and tenants[g]['configured']
                      and not tenants[g].get('credit') and not tenants[g].get('infers')
                      and (tenants[g]['bp'].get('dict_id') is None
                           or tenants[g]['bp'].get('dict_id') != tp['bp'].get('dict_id'))]
            t = P.pick(rng, fns)
            f6 = {'kind': 'F6', 'target': t['name'], 'k': rng.randrange(max(1, min(t['n'], 3))),
                  'reseed': rng.getrandbits(30)}
            if others and rng.random() < 0.75:
                same = [g for g in others if tenants[g]['bp']['cls'] == tp['bp']['cls']]
                og = P.pick(rng, same if same and rng.random() < 0.7 else others)
                otp = tenants[og]
                cat = P.pick(rng, [c for c in ('right', 'wrong', 'malformed', 'neg') if otp['pal'].get(c)])
                f6['call'] = {'g': og, 'input': copy.deepcopy(P.pick(rng, otp['pal'][cat]))}
            else:
                f6['eval'] = P.pick(rng, EVAL_FORMULAS)
            ev['faults'].append(f6)
        deep_cls = tp['bp']['cls'] not in ('StringGrader', 'SimItemGrader')     # calls deep enough to strike
        if deep_cls and rng.random() < rates.get('F3', 0) * 1.6 and ev['expect'] is None \
                and ev['icls'] != 'wrongkind' and not any(f['kind'] == 'F6' for f in ev['faults']):
            ev['headroom'] = rng.random()
            ev['faults'].append({'kind': 'F3'})
        elif rng.random() < rates.get('budget', 0):
            ev['budget'] = True
        if tp.get('budget_all') and 'headroom' not in ev:
            ev['budget'] = True
        if tp['bp']['cls'] == 'SumGrader' and ev.get('icls') == 'hostile':
            # student-controlled summation limits: always count steps (a hang would otherwise
            # only be caught by the wall-clock watchdog)
            ev['budget'] = True
            ev.pop('headroom', None)
            ev['faults'] = [f for f in ev['faults'] if f['kind'] != 'F3']
        if rng.random() < rates.get('F4', 0):
            ev['rng'] = 'edge'
        return ev

    # ------------------------------------------------------------------
    # execution
    # ------------------------------------------------------------------
    def execute(self, journal, baseline):
        st = Run(self, journal, baseline)
        return st.run()

    def simplify(self, journal, test, deadline):
        """
        Per-event simplification after ddmin (each candidate is executed in a fresh fork by
        `test`): drop tenants no remaining event mentions, then drop attached faults, edge-draw
        mode, headroom and attempt numbers one event at a time, keeping a change only if the
        same check still fails.
        """
        import time as _t
        used = 0
        j = copy.deepcopy(journal)
        mentioned = set()
        for e in j['events']:
            if 'g' in e:
                mentioned.add(e['g'])
            for f in e.get('faults', ()):
                if 'call' in f:
                    mentioned.add(f['call']['g'])
        dict_ids = set(j['tenants'][g]['bp'].get('dict_id') for g in mentioned if g in j['tenants'])
        cand = copy.deepcopy(j)
        cand['tenants'] = {g: t for g, t in j['tenants'].items()
                           if g in mentioned or (t['bp'].get('dict_id') is not None and t['bp'].get('dict_id') in dict_ids)}
        if len(cand['tenants']) < len(j['tenants']) and _t.monotonic() < deadline:
            used += 1
            if test(cand):
                j = cand
        for k in range(len(j['events'])):
            for key in ('faults', 'rng', 'headroom', 'budget', 'attempt', 'dup'):
                if _t.monotonic() > deadline or used > 60:
                    return j, used
                e = j['events'][k]
                if key not in e or (key == 'faults' and not e['faults']):
                    continue
                cand = copy.deepcopy(j)
                if key == 'faults':
                    cand['events'][k]['faults'] = []
                else:
                    del cand['events'][k][key]
                used += 1
                if test(cand):
                    j = cand
        return j, used

    def audit(self, journal, job):
        """
        R3: recompute one call's fresh-instance outcome in a process that has executed nothing
        else (the caller forks it from the pristine zygote).  Assumes nothing about where global
        state lives: it catches pollution that reaches the in-process replica as well.
        """
        run = Run(self, journal, None)
        run.built_reg = job['built_reg']
        run.dict_reg = job['dict_reg']
        run.reg = job['reg_now']
        if job.get('prime_reg') is not None:
            run.last_good_reg[job['gid']] = job['prime_reg']
        run.apply_reg(run.reg)
        ev = job['ev']
        inp = decode_input(ev['input'])
        kw = {'attempt': ev['attempt']} if 'attempt' in ev else {}
        o, _, _ = run.replica_outcome(job['gid'], ev, ev.get('expect'), inp, kw, job['prime'])
        return {'o': o}


class Run(object):
    def __init__(self, world, journal, baseline):
        self.lib = load_lib()
        self.world = world
        self.prof = world.profile
        self.judges = set(self.prof['judges'])
        self.j = journal
        self.baseline = baseline
        self.tenants = journal['tenants']
        self.shared = journal.get('shared', {})
        self.stats = {}
        self.probes = {}
        self.refs = {}
        self.env = seams.Env('orig', self.stats)
        self.env.reenter_cb = self.reenter
        self.builder = Builder(self.env, resolve_ref=self.resolve_ref)
        self.graders = {}
        self.build_fail = {}
        self.built_reg = {}
        self.reg = {c: None for c in REG_CLASSES}
        self.reg['__cmp__'] = {c: None for c in CMP_CLASSES}     # class-wide default comparers
        self.last_good = {}
        self.dg = {}
        self.violations = []
        self.log = []
        self.sig = []
        self.touched = set()
        self.sim_time = 0
        self.n_events = 0
        self.cur_event = None
        self.scope = None
        self.cur_layer = None
        self.dgn = {}
        self.last_call = {}
        self.dict_reg = {}
        self.last_good_reg = {}
        self.debug0 = {}
        self.dg2 = {}
        self.r3_jobs = []

    def bump(self, d, key, n=1):
        d[key] = d.get(key, 0) + n

    def violate(self, check, i, cls, detail, sig=None):
        self.violations.append({'check': check, 'event': i, 'cls': cls, 'detail': detail[:1500],
                                'sig': sig or ('%s|%s' % (check, cls))})

    # -- registered defaults (reference model + application through the public API) ----
    # The replica is the harness's own activity and must be invisible to the world: the actual
    # class-wide settings are saved before the model state is established for a replica and put
    # back afterwards by plain assignment (re-establishing the *model* state instead would
    # quietly repair any deviation of the real process from the model -- exactly what R1 is
    # there to detect).
    def snapshot_actual(self):
        snap = {'dv': {}, 'cmp': {}}
        for cname in REG_CLASSES:
            snap['dv'][cname] = cls_by_name(cname).default_values
        for cname in CMP_CLASSES:
            snap['cmp'][cname] = cls_by_name(cname).__dict__.get('default_comparer')
        return snap

    def restore_actual(self, snap):
        for cname, val in snap['dv'].items():
            cls_by_name(cname).default_values = val
        for cname, val in snap['cmp'].items():
            if val is not None:
                setattr(cls_by_name(cname), 'default_comparer', val)

    def apply_reg(self, state):
        b = Builder(seams.Env('reg'))
        for cname in REG_CLASSES:
            cls = cls_by_name(cname)
            cls.clear_registered_defaults()
            for d in (state.get(cname) or []):
                cls.register_defaults(b.decode(copy.deepcopy(d)))
        for cname, spec in (state.get('__cmp__') or {c: None for c in CMP_CLASSES}).items():
            cls = cls_by_name(cname)
            if spec is None:
                cls.reset_default_comparer()
            else:
                cls.set_default_comparer(b.decode(copy.deepcopy(spec)))

    # -- building ----------------------------------------------------------------------
    def resolve_ref(self, sid, builder):
        """Shared subgrader referenced by a tenant of the original world."""
        if sid in self.graders and self.graders[sid] is not None:
            return self.graders[sid]
        obj = builder.build(self.shared[sid]['bp'])
        self.graders[sid] = obj
        self.built_reg[sid] = copy.deepcopy(self.reg)
        self.dg[sid] = digest(obj.config)
        self.debug0[sid] = bool(obj.config.get('debug'))
        return obj

    def build(self, gid):
        tp = self.tenants[gid]
        if gid in self.shared and gid in self.graders:
            return {'k': 'ret', 'v': None}
        did = tp['bp'].get('dict_id')
        if did is not None and did not in self.dict_reg:
            # the shared dictionary (and the objects nested in it) is written now
            self.dict_reg[did] = copy.deepcopy(self.reg)
        o, g = outcome2(self.builder.build, tp['bp'])
        self.built_reg[gid] = copy.deepcopy(self.reg)
        strings_in(tp['bp']['cfg'].get('answers'), self.touched)
        if g is None:
            self.graders[gid] = None
            self.build_fail[gid] = o
        else:
            self.graders[gid] = g
            self.dg[gid] = digest(g.config)
            self.dgn[gid] = self.noans(g)
            self.debug0[gid] = bool(g.config.get('debug'))
        return o

    @staticmethod
    def noans(g):
        return digest({k: v for k, v in g.config.items() if k != 'answers'})

    def get(self, gid):
        if gid not in self.graders:
            self.build(gid)
        return self.graders[gid]

    def replica_builder(self, role='replica'):
        env2 = seams.Env(role)
        run = self

        def resolve(sid, builder):
            if sid in run.built_reg:
                run.apply_reg(run.built_reg[sid])
            obj = builder.build(run.shared[sid]['bp'])
            return obj
        return env2, Builder(env2, resolve_ref=resolve)

    def replica(self, gid, bp=None):
        """A fresh instance of tenant gid, built under the registration state of the original."""
        env2, b2 = self.replica_builder()
        tp = self.tenants[gid]
        bp = bp or tp['bp']
        # shared subgraders first (each under its own construction-time registration state)
        snap = self.snapshot_actual()
        try:
            for sid in self.refs_of(bp):
                o_s, obj = outcome2(b2.resolve_ref, sid, b2)
                if obj is None:
                    # the shared subgrader cannot be rebuilt: the tenant's construction fails likewise
                    return env2, b2, None, o_s
                b2.registry[sid] = obj
            did = bp.get('dict_id')
            if did is not None and did in self.dict_reg:
                # nested objects of a shared config dictionary were constructed when the dictionary
                # was written, possibly under other registered defaults than this tenant's build
                self.apply_reg(self.dict_reg[did])
                try:
                    b2.predecode(bp)
                except Exception:  # pylint: disable=broad-except
                    pass
            self.apply_reg(self.built_reg.get(gid, self.reg))
            o, g2 = outcome2(b2.build, bp)
        finally:
            self.restore_actual(snap)
        return env2, b2, g2, o

    def refs_of(self, data, out=None):
        out = [] if out is None else out
        if isinstance(data, dict):
            if '__ref__' in data and len(data) == 1:
                if data['__ref__'] not in out:
                    out.append(data['__ref__'])
            else:
                for v in data.values():
                    self.refs_of(v, out)
        elif isinstance(data, list):
            for v in data:
                self.refs_of(v, out)
        return out

    # -- F6 re-entry -------------------------------------------------------------------
    def reenter(self, f):
        layer = self.cur_layer
        saved = (layer.rng.getstate(), layer.draws, layer.mode) if layer is not None else None
        if layer is not None:
            layer.mode = 'record'
        try:
            self._reenter(f)
        finally:
            if layer is not None:
                layer.rng.setstate(saved[0])
                layer.draws = saved[1]
                layer.mode = saved[2]

    def _reenter(self, f):
        seams.seed_lib(f['reseed'])
        if 'call' in f:
            og = f['call']['g']
            g = self.get(og)
            inp = decode_input(f['call']['input'])
            if g is not None:
                o = outcome(g, None, inp)
                self.env.inner.append({'g': og, 'input': f['call']['input'], 'o': o,
                                       'reseed': f['reseed']})
        else:
            calc = __import__('mitxgraders.helpers.calc', fromlist=['x'])
            scope = self.make_scope(seams.Env('inner'))
            o = outcome(lambda: calc.evaluator(f['eval'], scope['v'], scope['f'], scope['s'])[0])
            self.env.inner.append({'eval': f['eval'], 'o': o, 'reseed': f['reseed']})
        seams.seed_lib(f['reseed'] + 1)

    # -- scopes for direct evaluator clients -----------------------------------------
    def make_scope(self, env):
        MA = self.lib.math_array.MathArray
        calc = __import__('mitxgraders.helpers.calc', fromlist=['x'])
        v = {'x': 2.0, 'y': 3, 'M': MA([[2.0, 1.0], [1.0, 3.0]]), 'v': MA([1.0, -2.0]),
             'pi': calc.DEFAULT_VARIABLES['pi']}
        f = dict(calc.DEFAULT_FUNCTIONS)
        f['f'] = seams.make_fn('scope.f', {'kind': 'square', 'arity': 1}, env)
        s = {'%': 0.01, 'k': 1000.0}
        return {'v': v, 'f': f, 's': s}

    # -- the call itself ---------------------------------------------------------------
    def deliver(self, g, env, ev, expect, inp, kw, headroom=None, budget=False, measure=False):
        """Execute one delivery against grader g in environment env. Returns (outcome, raw, extra)."""
        env.begin(ev)
        seams.seed_lib(ev['subseed'])
        mode = ev.get('rng', 'record')
        extra = {}
        layer = seams.RngLayer(mode, edge_seed=ev['subseed'] ^ 0x5EED, p=0.15,
                               stats=env.stats if env.role == 'orig' else {})
        fn = lambda: g(expect, inp, **kw)  # noqa: E731
        if env.role == 'orig':
            self.cur_layer = layer
        with layer:
            if measure:
                peak, outside, res, err = seams.measure_peak_depth(lambda: outcome2(fn))
                o, raw = res
                extra['peak'] = peak
                extra['outside'] = outside
            elif headroom is not None:
                o, raw = outcome2(lambda: seams.call_with_headroom(fn, headroom))
            elif budget:
                try:
                    limit = self.prof.get('budget', 5000000)
                    if type(g).__name__ == 'SumGrader':
                        # (a sum to the cutoff for infinity of a deeply nested summand, for every
                        # sample, legitimately needs a few million calls)
                        limit = 20000000
                    (o, raw), steps = seams.run_with_budget(lambda: outcome2(fn), limit)
                    extra['steps'] = steps
                except seams.BudgetExceeded as over:
                    o, raw = {'k': 'exc', 'cls': 'BudgetExceeded', 'msg': str(over), 'fam': 'other'}, None
            else:
                o, raw = outcome2(fn)
        extra['draws'] = layer.draws
        extra['records'] = env.records
        extra['inner'] = env.inner
        extra['counters'] = dict(env.counters)
        env.end()
        return o, raw, extra

    def replica_outcome(self, gid, ev, expect, inp, kw, prime, measure=False):
        """R1: the same call on a fresh instance (primed with the last good expect if needed)."""
        tp = self.tenants[gid]
        env2, b2, g2, ob = self.replica(gid)
        self.bump(self.refs, 'R1')
        if g2 is None:
            return ob, {}, b2
        if prime is not None:
            # the remembered answers were inferred under the class-wide settings in force when
            # that expect value was delivered (default comparers, registered defaults)
            prime_reg = self.last_good_reg.get(gid)
            snap = self.snapshot_actual()
            if prime_reg is not None:
                self.apply_reg(prime_reg)
            try:
                env2.begin({'faults': []})
                seams.seed_lib(0)
                outcome(g2, prime, tp['pal']['right'][0])
                env2.end()
            finally:
                self.restore_actual(snap)
            self.bump(self.probes, 'replica primed with last good expect')
        o_r, _, x_r = self.deliver(g2, env2, ev, expect, inp, kw, measure=measure)
        return o_r, x_r, b2

    def do_call(self, i, ev):
        gid = ev['g']
        tp = self.tenants[gid]
        cls = tp['bp']['cls']
        g = self.get(gid)
        expect = ev.get('expect')
        inp = decode_input(ev['input'])
        kw = {'attempt': ev['attempt']} if 'attempt' in ev else {}
        strings_in(ev['input'], self.touched)
        strings_in(expect, self.touched)
        self.sim_time += 1
        fk = sorted(set(f['kind'] for f in ev.get('faults', ())))
        if ev.get('rng') == 'edge':
            fk.append('F4')
        if g is None:
            # construction failed: the replica's construction must fail the same way
            o = self.build_fail[gid]
            if 'R1' in self.judges:
                _, _, g2, o2 = self.replica(gid)
                self.bump(self.refs, 'R1')
                if o2 != o:
                    self.violate('R1', i, cls, 'construction differs: orig=%s fresh=%s' % (short(o), short(o2)))
            self.sig.append(['call', cls, fk, 'unbuilt'])
            self.log.append([i, 'unbuilt', core.jdigest(o)])
            return
        need_r1 = 'R1' in self.judges or 'headroom' in ev
        prime = None
        if not tp['configured'] and expect is None:
            prime = self.last_good.get(gid)
        o2 = None
        x2 = None

        def run_replica(measure=False):
            return self.replica_outcome(gid, ev, expect, inp, kw, prime, measure)

        if 'headroom' in ev:
            # F3: the depth of a call is almost entirely pyparsing recursion on strings the shared
            # parser has not seen yet (measured: about 60-135 frames cold, about 20 warm), and any
            # earlier replica run would warm that cache.  So the original goes FIRST, with a
            # headroom drawn blind from [40, 140): above what the unguarded prologue/epilogue
            # need (measured <= 22 frames), inside the parse/eval recursion when the call is cold.
            headroom = 40 + int(ev['headroom'] * 100)
            o, raw, x = self.deliver(g, self.env, ev, expect, inp, kw, headroom=headroom)
            self.bump(self.stats, 'F3.armed')
            o2, x2, b2 = run_replica()
            if o != o2:
                self.bump(self.stats, 'F3.struck')
            debug_on = bool(g.config.get('debug'))
            if o != o2:
                ok = o['k'] == 'exc' and (debug_on or o['fam'] != 'other')
                if not ok:
                    self.violate('F3', i, cls, 'struck call (headroom %d) gave %s, ample stack gives %s'
                                 % (headroom, short(o), short(o2)))
        else:
            o, raw, x = self.deliver(g, self.env, ev, expect, inp, kw, budget=bool(ev.get('budget')))
            if need_r1:
                o2, x2, b2 = run_replica()
                if o != o2:
                    self.violate('R1', i, cls,
                                 'call #%d on %s(%s) expect=%r[%s] input=%r: got %s ; a fresh instance gives %s'
                                 % (i, cls, gid, expect, ev.get('ecls'), ev['input'], short(o), short(o2)),
                                 sig='R1|%s|%s|%s' % (cls, short(o, 60), short(o2, 60)))
        if self.j.get('r3') and 'R1' in self.judges and 'headroom' not in ev:
            # R3: the same fresh-instance computation, to be repeated in a pristine process
            refs = self.refs_of(tp['bp'])
            self.r3_jobs.append({
                'i': i, 'gid': gid, 'ev': ev, 'prime': prime, 'o': o, 'reg_now': copy.deepcopy(self.reg),
                'prime_reg': copy.deepcopy(self.last_good_reg.get(gid)),
                'built_reg': {k: v for k, v in self.built_reg.items() if k == gid or k in refs},
                'dict_reg': dict(self.dict_reg)})
        # reference state machine: last successfully supplied expect
        if not tp['configured'] and expect is not None:
            if ev.get('ecls') in ('valid', 'other'):
                if self.last_good.get(gid) is not None and self.last_good[gid] != expect:
                    self.bump(self.probes, 'expect changed')
                self.last_good[gid] = expect
                self.last_good_reg[gid] = copy.deepcopy(self.reg)
            elif ev.get('ecls') == 'invalid':
                self.bump(self.probes, 'invalid expect delivered')
                if 'R1' in self.judges and 'headroom' not in ev and \
                        not (o['k'] == 'exc' and o['fam'] == 'config'):
                    # validity of an expect value is known by construction, independently of any
                    # instance the library could offer for comparison
                    self.violate('expect-validity', i, cls,
                                 'expect %r is invalid for this %s by construction, but the call gave %s'
                                 % (expect, cls, short(o)))
                if self.last_good.get(gid) is not None:
                    self.bump(self.probes, 'invalid expect after a good one')
        if o['k'] == 'exc':
            self.bump(self.probes, 'call raised')
        # F6: the inner calls must equal standalone fresh-instance outcomes
        for rec in x.get('inner', ()):
            self.bump(self.probes, 're-entrant call completed')
            if 'R1' in self.judges and 'g' in rec:
                env3, b3, g3, ob = self.replica(rec['g'])
                if g3 is not None:
                    env3.begin(ev)
                    seams.seed_lib(rec['reseed'])
                    o3 = outcome(g3, None, decode_input(rec['input']))
                    env3.end()
                    if o3 != rec['o']:
                        self.violate('R1-inner', i, self.tenants[rec['g']]['bp']['cls'],
                                     're-entrant call on %s input=%r gave %s ; standalone fresh instance gives %s'
                                     % (rec['g'], rec['input'], short(rec['o']), short(o3)))
        # profile judges
        if 'struct' in self.judges:
            self.judge_struct(i, ev, tp, g, o, raw, inp)
        if 'family' in self.judges:
            self.judge_family(i, ev, tp, g, o, x, inp)
        if 'attempt' in self.judges:
            self.judge_attempt(i, ev, tp, g, o, gid, expect, inp, prime)
        if ev.get('dup') and 'dup' in self.judges:
            prev = self.last_call.get(gid)
            if prev is not None and prev[0] == core.jdigest([ev.get('expect'), ev['input'], ev.get('attempt'),
                                                             ev['subseed']]):
                self.bump(self.probes, 'duplicate delivery compared')
                if prev[1] != o:
                    self.violate('dup', i, cls, 'the same delivery twice: first %s then %s' % (short(prev[1]), short(o)))
        self.last_call[gid] = (core.jdigest([ev.get('expect'), ev['input'], ev.get('attempt'), ev['subseed']]), o)
        okc = o['cls'] if o['k'] == 'exc' else 'ret'
        self.sig.append(['call', cls, ev.get('ecls'), ev.get('icls'), fk, okc])
        self.log.append([i, 'call', core.jdigest(o), x.get('draws')])
        self.after_event(i, gid, tp)

    # -- invariants after every event --------------------------------------------------
    def after_event(self, i, gid=None, tp=None):
        if 'I-author' in self.judges:
            bad = self.builder.author_violations()
            if bad:
                self.violate('I-author', i, tp['bp']['cls'] if tp else None,
                             "author's configuration objects changed: %s" % bad)
                # re-baseline so that one mutation is reported once
                for ent in self.builder.author:
                    ent[2] = digest(ent[1], True)
        if 'I-others' in self.judges:
            # every grader object of the world (top-level, nested, shared), each digested on its
            # own (nested graders by label): only the grader that was called may change, and only
            # by its own legitimately inferred answers
            called = self.graders.get(gid) if gid is not None else None
            for h in self.builder.all_graders:
                key = id(h)
                now = digest(h.config, True)
                old = self.dg2.get(key)
                if old is None:
                    self.dg2[key] = (now, self.noans2(h))
                    continue
                if now == old[0]:
                    continue
                if h is called and (not tp['configured'] or tp.get('infers')) and self.noans2(h) == old[1]:
                    self.dg2[key] = (now, old[1])
                    continue
                self.violate('I-others', i, type(h).__name__,
                             'config of %s (%s) changed by event %d on %s'
                             % (getattr(h, 'sim_label', '?'), type(h).__name__, i, gid))
                self.dg2[key] = (now, self.noans2(h))

    @staticmethod
    def noans2(g):
        return digest({k: v for k, v in g.config.items() if k != 'answers'}, True)

    # -- other events ------------------------------------------------------------------
    def do_event(self, i, ev):
        op = ev['op']
        if op == 'call':
            return self.do_call(i, ev)
        if op == 'build':
            if ev['g'] in self.graders:
                return None
            o = self.build(ev['g'])
            self.sig.append(['build', self.tenants[ev['g']]['bp']['cls'], o['k']])
            self.log.append([i, 'build', core.jdigest(o)])
            self.after_event(i)
        elif op == 'build_bad':
            self.bump(self.stats, 'F9.refused_construction')
            b = Builder(seams.Env('bad'))
            bp = dict(ev['bp'])
            bp['style'] = ev.get('style', 'kwargs')
            o, g = outcome2(b.build, bp)
            if g is not None:
                self.violate('F9', i, bp['cls'], 'invalid configuration accepted: %r' % (bp['cfg'],))
            elif b.author_violations():
                self.violate('I-author', i, bp['cls'], 'refused construction changed the config dict')
            self.sig.append(['build_bad', bp['cls'], o.get('cls')])
            self.log.append([i, 'build_bad', core.jdigest(o)])
            self.after_event(i)
        elif op == 'register':
            cls = cls_by_name(ev['cls'])
            b = Builder(seams.Env('reg'))
            vals = b.decode(copy.deepcopy(ev['values']))
            before = digest(vals, True)
            cls.register_defaults(vals)
            self.reg[ev['cls']] = (self.reg[ev['cls']] or []) + [ev['values']]
            self.builder.author.append(['registered:' + ev['cls'], vals, before])
            self.bump(self.probes, 'defaults registered')
            self.sig.append(['register', ev['cls'], sorted(ev['values'])])
            self.log.append([i, 'register'])
            self.after_event(i)
        elif op == 'clear':
            cls_by_name(ev['cls']).clear_registered_defaults()
            self.reg[ev['cls']] = None
            self.sig.append(['clear', ev['cls']])
            self.log.append([i, 'clear'])
            self.after_event(i)
        elif op == 'set_comparer':
            b = Builder(seams.Env('reg'))
            cls_by_name(ev['cls']).set_default_comparer(b.decode(copy.deepcopy(ev['spec'])))
            self.reg['__cmp__'] = dict(self.reg['__cmp__'])
            self.reg['__cmp__'][ev['cls']] = ev['spec']
            self.bump(self.probes, 'default comparer changed')
            self.sig.append(['set_comparer', ev['cls']])
            self.log.append([i, 'set_comparer'])
            self.after_event(i)
        elif op == 'reset_comparer':
            cls_by_name(ev['cls']).reset_default_comparer()
            self.reg['__cmp__'] = dict(self.reg['__cmp__'])
            self.reg['__cmp__'][ev['cls']] = None
            self.sig.append(['reset_comparer', ev['cls']])
            self.log.append([i, 'reset_comparer'])
            self.after_event(i)
        elif op == 'eval':
            self.do_eval(i, ev)
        elif op == 'anticipated':
            self.do_anticipated(i, ev)
        return None

    def do_anticipated(self, i, ev):
        """An anticipated problem keeps its specific error class (debug off), whatever ran before."""
        m = self.lib.mitx
        text, want = ANTICIPATED[ev['case']]
        expect = None
        if text.startswith('@braces:'):
            text = text.split(':', 1)[1]
            g = m.IntervalGrader(answers='{1,2}', opening_brackets='{[', closing_brackets='}]')
            inp = text
        elif text.startswith('@bracesexpect:'):
            text = text.split(':', 1)[1]
            g = m.IntervalGrader(opening_brackets='{[', closing_brackets='}]')
            inp, expect = '{1,2}', text
        elif text.startswith('@instructor:'):
            text = text.split(':', 1)[1]
            g = m.FormulaGrader(answers='x*c', variables=['x', 'c'], instructor_vars=['c'])
            inp = text
        elif text.startswith('@siblingblank:'):
            text = text.split(':', 1)[1]
            g = m.ListGrader(answers=['2*sibling_2', 'x'], subgraders=m.FormulaGrader(variables=['x']), ordered=True)
            inp = ['2*x', text]
        elif text.startswith('@sumblank:'):
            text = text.split(':', 1)[1]
            g = m.SumGrader(answers={'lower': '1', 'upper': '5', 'summand': 'n', 'summation_variable': 'n'},
                            input_positions={'lower': 1, 'upper': 2, 'summand': 3})
            inp = ['1', text, 'n'] if ev['via'] != 'matrix' else [text, '5', 'n']
        elif text.startswith('@delim:') or text.startswith('@intervaldelim:'):
            delim = text.split(':', 1)[1]
            try:
                if text.startswith('@delim:'):
                    g = m.SingleListGrader(subgrader=m.StringGrader(), delimiter=delim)
                    inp, expect = 'a,b', ('a,b' if ev['via'] != 'matrix' else None)
                else:
                    g = m.IntervalGrader(delimiter=delim)
                    inp, expect = '[1,2)', ('[1,2)' if ev['via'] != 'matrix' else None)
            except Exception:       # refused at construction (voluptuous or ConfigError): not a call
                self.sig.append(['anticipated', ev['via'], 'refused'])
                self.log.append([i, 'anticipated', 'refused'])
                return
            text = 'delimiter %r' % delim
        elif text.startswith('@sibling:'):
            text = text.split(':', 1)[1]
            g = m.ListGrader(answers=['sibling_2+1', 'x'], subgraders=m.FormulaGrader(variables=['x']), ordered=True)
            inp = [text, 'x']
        elif '_{' in text:
            g = m.FormulaGrader(answers='a_{1}+T_{ij}^{k}', variables=['a_{1}', 'T_{ij}^{k}'],
                                user_functions={'f_{2}': lambda x: x})
            inp = text
        elif want == 'MathArrayError':
            # a plain FormulaGrader: MatrixGrader options that an author may have registered
            # class-wide (suppress_matrix_messages) legitimately turn these into graded results
            g = m.FormulaGrader(answers='1', max_array_dim=2)
            inp = text
        elif ev['via'] == 'matrix':
            g = m.MatrixGrader(answers='[1,2]', max_array_dim=2)
            inp = text
        elif ev['via'] == 'numerical':
            g = m.NumericalGrader(answers='1')
            inp = text
        else:
            g = m.ListGrader(answers=['1', '[1,2]'], subgraders=m.MatrixGrader(max_array_dim=2), ordered=True)
            inp = ['1', text]
        seams.seed_lib(ev['subseed'])
        o = outcome(g, expect, inp)
        self.bump(self.probes, 'anticipated problem submitted')
        if 'family' in self.judges and not g.config.get('debug'):
            if want == 'ANY':
                if o['k'] == 'exc' and o['fam'] == 'other':
                    self.violate('I-family', i, type(g).__name__,
                                 'a non-library exception escaped with debug off (%s, expect=%r, input=%r): %s'
                                 % (text, expect, inp, short(o)),
                                 sig='I-family|anticipated|ANY')
            elif not (o['k'] == 'exc' and o['cls'] == want):
                self.violate('I-family', i, type(g).__name__,
                             'anticipated problem %r must raise %s, got %s' % (text, want, short(o)),
                             sig='I-family|anticipated|%s' % want)
        self.sig.append(['anticipated', ev['via'], o.get('cls', 'ret')])
        self.log.append([i, 'anticipated', core.jdigest(o)])

    def do_eval(self, i, ev):
        calc = __import__('mitxgraders.helpers.calc', fromlist=['x'])
        if self.scope is None:
            self.scope = self.make_scope(self.env)
            for k in ('v', 'f', 's'):
                self.builder.author.append(['scope.' + k, self.scope[k], digest(self.scope[k], True)])
        sc = self.scope
        self.touched.add(ev['formula'])
        self.env.begin(ev)
        seams.seed_lib(ev['subseed'])
        o = outcome(lambda: calc.evaluator(ev['formula'], sc['v'], sc['f'], sc['s'],
                                           max_array_dim=2))
        self.env.end()
        if 'R1' in self.judges:
            env2 = seams.Env('replica')
            sc2 = self.make_scope(env2)
            fresh = self.lib.expressions.MathParser()
            env2.begin(ev)
            seams.seed_lib(ev['subseed'])

            def ref():
                val, meta = fresh.parse(ev['formula'].strip()).eval(sc2['v'], sc2['f'], sc2['s'])
                if meta.max_array_dim_used > 2:
                    raise self.lib.calc_exc.UnableToParse('Tensor expressions have been forbidden in this entry.')
                return val, meta
            o2 = outcome(ref)
            env2.end()
            self.bump(self.refs, 'R1')
            if o != o2:
                self.violate('R1-eval', i, 'evaluator', 'evaluator(%r) gave %s ; fresh parser+scope gives %s'
                             % (ev['formula'], short(o), short(o2)))
        self.sig.append(['eval', ev['formula'], o.get('cls', 'ret')])
        self.log.append([i, 'eval', core.jdigest(o)])
        self.after_event(i)

    # -- judges ------------------------------------------------------------------------
    def judge_struct(self, i, ev, tp, g, o, raw, inp):
        if o['k'] != 'ret':
            return
        cls = tp['bp']['cls']
        import numbers

        def bad(msg):
            self.violate('I-struct', i, cls, '%s; input=%r result=%s' % (msg, ev['input'], short(o, 400)),
                         sig='I-struct|%s|%s' % (cls, msg[:50]))
        if not isinstance(raw, dict):
            return bad('result is not a dict')
        entries = []
        if 'input_list' in raw:
            if set(raw.keys()) != {'overall_message', 'input_list'}:
                return bad('key set %s' % sorted(raw.keys()))
            if not isinstance(raw['overall_message'], str):
                return bad('overall_message is not a string')
            if not isinstance(inp, list) or len(raw['input_list']) != len(inp):
                return bad('input_list has %d entries for %s inputs'
                           % (len(raw['input_list']), len(inp) if isinstance(inp, list) else 'non-list'))
            entries = list(raw['input_list'])
            texts = [raw['overall_message']] + [e.get('msg', '') for e in entries if isinstance(e, dict)]
        else:
            if isinstance(inp, list) and cls not in ('SumGrader', 'IntegralGrader'):
                return bad('single-entry result for a list of inputs')
            entries = [raw]
            texts = [raw.get('msg', '')]
        pinned = self.pinned_values(tp)
        for k, e in enumerate(entries):
            if not isinstance(e, dict) or set(e.keys()) != {'ok', 'grade_decimal', 'msg'}:
                return bad('entry %d key set %s' % (k, sorted(e.keys()) if isinstance(e, dict) else type(e)))
            gd = e['grade_decimal']
            if not isinstance(gd, numbers.Real) or not (0 <= gd <= 1) or gd != gd:
                return bad('entry %d grade_decimal=%r' % (k, gd))
            if not isinstance(e['msg'], str):
                return bad('entry %d msg is %s' % (k, type(e['msg']).__name__))
            want = False if gd == 0 else (True if gd == 1 else 'partial')
            if not (e['ok'] is want or e['ok'] == want and type(e['ok']) == type(want)):
                if not (gd == 1 and e['ok'] in pinned):
                    return bad('entry %d ok=%r but grade_decimal=%r' % (k, e['ok'], gd))
            # positional attribution via the unique tags of SimItemGrader messages
            if isinstance(inp, list) and k < len(inp) and isinstance(inp[k], str):
                want_tag = inp[k].replace('\n', '<br/>\n') + '}'
                for mt in TAGHEAD.finditer(e['msg']):
                    rest = e['msg'][mt.end():]
                    if not rest.startswith(want_tag):
                        return bad('entry %d carries the tag %r..., not the tag of its own input %r'
                                   % (k, rest[:30], inp[k]))
        # the debug option as configured when the grader was built (not the live attribute,
        # which a defect may have flipped)
        if not self.debug0.get(ev['g'], bool(g.config.get('debug'))):
            for t in texts:
                if BANNER in t or 'Student Response' in t or 'Expect value inferred' in t \
                        or 'Comparison Data for All' in t or 'Evaluation Data for Sample' in t:
                    return bad('debug output leaked with debug=False')
        return None

    def pinned_values(self, tp):
        out = set()

        def walk(a):
            if isinstance(a, dict):
                if 'ok' in a and 'expect' in a:
                    out.add(a['ok'])
                for v in a.values():
                    walk(v)
            elif isinstance(a, list):
                for v in a:
                    walk(v)
        walk(tp['bp']['cfg'])
        return out

    def judge_family(self, i, ev, tp, g, o, x, inp):
        cls = tp['bp']['cls']
        if o['k'] == 'exc' and o['cls'] == 'BudgetExceeded':
            sig = 'I-budget|%s' % cls
            if cls == 'SumGrader' and self.huge_limit(inp):
                sig = 'I-budget|SumGrader|huge-finite-limit'
            self.violate('I-budget', i, cls, 'call did not finish within its step budget: input=%r' % (ev['input'],),
                         sig=sig)
            return
        debug_on = bool(g.config.get('debug'))
        if debug_on and ev.get('icls') == 'wrongkind' and not (o['k'] == 'exc' and o['fam'] == 'config'):
            # input validation happens before grading starts, whatever the debug option says
            self.violate('I-family', i, cls, 'input of the wrong kind was not refused with a configuration error '
                         '(debug on); input=%r -> %s' % (ev['input'], short(o, 300)),
                         sig='I-family|%s|wrong kind not refused (debug)' % cls)
        if debug_on:
            return
        attempt_faulty = bool(g.config.get('attempt_based_credit')) and getattr(
            g.config.get('attempt_based_credit'), 'sim_name', None) is not None

        def bad(msg):
            self.violate('I-family', i, cls, '%s; expect=%r input=%r faults=%s -> %s'
                         % (msg, ev.get('expect'), ev['input'], ev.get('faults'), short(o, 300)),
                         sig='I-family|%s|%s' % (cls, msg[:60]))
        if o['k'] == 'exc' and o['fam'] == 'other':
            return bad('a non-library exception escaped with debug off: %s' % o['cls'])
        if ev.get('icls') == 'wrongkind':
            if not (o['k'] == 'exc' and o['fam'] == 'config'):
                return bad('input of the wrong kind was not refused with a configuration error')
            if '\n' in o['msg'] and ev.get('ecls') != 'invalid':
                # (with an invalid expect the error may come from an author-defined inference hook,
                # which runs outside the guarded region by design)
                return bad('line breaks in the refusal of non-text input are not rendered as <br/>')
            return None
        # scripted failures
        fired = None
        for f in ev.get('faults', ()):
            if f['kind'] == 'F1' and x['counters'].get(f['target'], 0) > f['k']:
                fired = f
                break
        if fired is None:
            return None
        self.bump(self.probes, 'scripted failure reached the boundary')
        if o['k'] != 'exc':
            return bad('a scripted %s in %s was swallowed' % (fired['exc'], fired['target']))
        msg_br = fired['msg'].replace('\n', '<br/>')
        where = fired.get('where')
        if fired['exc'] == 'SimStudentError':
            if o['cls'] != 'SimStudentError' or o['msg'] != msg_br:
                return bad('student-facing error lost its class or message')
        elif fired['exc'] == 'SimConfigError':
            if where == 'fn':
                if o['fam'] != 'student':
                    return bad('config error inside a user function was not recast as student-facing')
            elif o['cls'] != 'SimConfigError' or o['msg'] != msg_br:
                return bad('configuration error lost its class or message')
        else:
            if where == 'fn':
                if o['fam'] != 'student':
                    return bad('failure inside a user function did not become a student-facing error')
            else:
                subs = inp if isinstance(inp, list) else [inp]
                if o['cls'] != 'StudentFacingError' or not o['msg'].startswith('Invalid Input: Could not check input') \
                        or not all(isinstance(s, str) and core.norm_text(s) in o['msg'] for s in subs):
                    return bad('unanticipated failure was not replaced by the generic error naming the submission')
        return None

    def huge_limit(self, inp):
        """Does a submitted summation limit evaluate to a finite number of huge magnitude?"""
        calc = __import__('mitxgraders.helpers.calc', fromlist=['x'])
        if not isinstance(inp, list):
            return False
        for text in inp[:2]:
            try:
                val = calc.evaluator(text, allow_inf=True)[0]
                if isinstance(val, (int, float)) and val == val and abs(val) != float('inf') and abs(val) > 5e4:
                    return True
            except Exception:  # pylint: disable=broad-except
                continue
        return False

    def judge_attempt(self, i, ev, tp, g, o, gid, expect, inp, prime):
        """C17(b): result == result without attempt credit, positive grades scaled by schedule(max(n,1))."""
        cls = tp['bp']['cls']
        sched = g.config.get('attempt_based_credit')
        if not sched:
            return
        if any(f['kind'] in ('F1', 'F3') for f in ev.get('faults', ())):
            return
        # replica built without attempt credit
        bp = copy.deepcopy(tp['bp'])
        bp['cfg'].pop('attempt_based_credit', None)
        had_msg = bp['cfg'].pop('attempt_based_credit_msg', None)
        bp.pop('dict_id', None)
        saved = self.reg
        # registered defaults may carry attempt credit too: strip it from the replica's world
        stripped = copy.deepcopy(self.built_reg.get(gid, self.reg))
        for cname, lst in stripped.items():
            if lst and cname != '__cmp__':
                stripped[cname] = [{k: v for k, v in d.items() if not k.startswith('attempt_based_credit')}
                                   for d in lst]
        keep = self.built_reg.get(gid)
        self.built_reg[gid] = stripped
        try:
            env2, b2, g2, ob = self.replica(gid, bp=bp)
        finally:
            if keep is None:
                self.built_reg.pop(gid, None)
            else:
                self.built_reg[gid] = keep
        self.bump(self.refs, 'R1-nocredit')
        if g2 is None:
            return
        if prime is not None:
            prime_reg = self.last_good_reg.get(gid)
            snap = self.snapshot_actual()
            if prime_reg is not None:
                self.apply_reg(prime_reg)
            try:
                env2.begin({'faults': []})
                seams.seed_lib(0)
                outcome(g2, prime, tp['pal']['right'][0])
                env2.end()
            finally:
                self.restore_actual(snap)
        kw = {'attempt': ev['attempt']} if 'attempt' in ev else {}
        o0, raw0, _ = self.deliver(g2, env2, ev, expect, inp, kw)

        def bad(msg):
            self.violate('attempt', i, cls, '%s; attempt=%r input=%r: with credit %s ; without %s'
                         % (msg, ev.get('attempt'), ev['input'], short(o, 300), short(o0, 300)),
                         sig='attempt|%s|%s' % (cls, msg[:60]))
        if o0['k'] == 'exc':
            if o != o0:
                return bad('a call that fails without attempt credit behaves differently with it')
            return None
        if 'attempt' not in ev:
            if not (o['k'] == 'exc' and o['fam'] == 'config'):
                return bad('missing attempt number was not a configuration error')
            self.bump(self.probes, 'missing attempt refused')
            return None
        if o['k'] == 'exc':
            return bad('call with attempt credit raised')
        n = ev['attempt']
        n_eff = n if n >= 1 else 1
        if n < 1:
            self.bump(self.probes, 'attempt below 1 delivered')
        try:
            mult = float(sched(n_eff))
        except Exception:  # schedule itself failing is not judged (DESIGN 3.3)
            return None
        msg_on = bool(g.config.get('attempt_based_credit_msg'))
        a = o['v']
        b = o0['v']
        ea = a['input_list'] if 'input_list' in a else [a]
        eb = b['input_list'] if 'input_list' in b else [b]
        if len(ea) != len(eb):
            return bad('entry count differs')
        reduced = False

        def num(c):
            if isinstance(c, dict):
                if 'f' in c:
                    return float(c['f'])
                if 'np' in c:
                    return num(c['v'])
            return float(c)
        for k, (x1, x0) in enumerate(zip(ea, eb)):
            g1, g0 = num(x1['grade_decimal']), num(x0['grade_decimal'])
            if g0 == 0:
                if g1 != 0 or x1['ok'] is not False:
                    return bad('entry %d: a zero grade did not stay zero' % k)
                continue
            # (absolute 6e-5: the property does not fix rounding; rounding the credit or the product
            # to four decimals is within it)
            if abs(g1 - g0 * mult) > 6e-5:
                return bad('entry %d: grade %r is not %r x %r' % (k, g1, g0, mult))
            if abs(mult - 1) > 5e-5:
                reduced = True
                want = False if g1 == 0 else (True if g1 == 1 else 'partial')
                if x1['ok'] != want or type(x1['ok']) != type(want):
                    return bad('entry %d: ok=%r not recomputed from grade %r' % (k, x1['ok'], g1))
            elif x1['ok'] != x0['ok']:
                return bad('entry %d: ok changed although credit is 1' % k)
        key = 'overall_message' if 'input_list' in a else 'msg'
        note = 'Maximum credit for attempt #'
        has_note = note in a[key]
        had_note = note in b[key]
        if had_note:
            return None
        if has_note != (reduced and msg_on):
            return bad('credit note present=%s but reduced=%s and flag=%s' % (has_note, reduced, msg_on))
        if has_note:
            self.bump(self.probes, 'credit note shown')
            m = re.search(r'Maximum credit for attempt #(\S+) is (\S+)%\.', a[key])
            if not m or m.group(1) != str(n_eff):
                return bad('credit note names the wrong attempt')
            if abs(float(m.group(2)) - 100 * mult) > 0.051:
                return bad('credit note percentage %s for multiplier %r' % (m.group(2), mult))
        # everything but grades/ok/note must be what the no-credit grader says
        for k, (x1, x0) in enumerate(zip(ea, eb)):
            m1, m0 = x1['msg'], x0['msg']
            if key == 'msg' and has_note:
                m1 = m1[:m1.index(note)].rstrip('\n').rstrip('<br/>').rstrip('\n').rstrip('<br/>')
                m0 = m0.rstrip('\n')
                if not m0.startswith(m1[:max(0, len(m1) - 12)]):
                    return bad('message changed by attempt credit')
            elif not g.config.get('debug') and m1 != m0:
                return bad('entry %d message changed by attempt credit' % k)
        if reduced:
            self.bump(self.probes, 'grade reduced by attempt credit')
        return None

    # -- the run -----------------------------------------------------------------------
    def run(self):
        events = self.j['events']
        for i, ev in enumerate(events):
            self.cur_event = i
            self.do_event(i, ev)
            self.n_events += 1
        self.finish()
        nontrivial = any(len(s) > 4 and s[0] == 'call' and s[4] for s in self.sig) or \
            len(set(e.get('g') for e in events if e['op'] == 'call')) >= 2
        fault_kinds = set()
        for e in events:
            for f in e.get('faults', ()):
                fault_kinds.add(f['kind'])
            if e.get('rng') == 'edge':
                fault_kinds.add('F4')
            if e['op'] == 'build_bad':
                fault_kinds.add('F9')
        sample = None
        if self.n_events:
            sample = {'tenants': {g: t['bp']['cls'] for g, t in self.tenants.items()},
                      'events': [self.brief(e) for e in events[:12]]}
        extra = {}
        if self.r3_jobs:
            extra['r3_jobs'] = self.r3_jobs
        return dict(extra, **{'violations': self.violations, 'fired': self.stats, 'probes': self.probes,
                'refs': self.refs, 'events': self.n_events, 'sim_time': self.sim_time,
                'sig': core.jdigest(self.sig), 'nontrivial': bool(nontrivial),
                'class': 'fault-injecting' if fault_kinds else 'fault-free',
                'log': core.jdigest(self.log), 'sample': sample})

    def brief(self, e):
        if e['op'] == 'call':
            return {'op': 'call', 'g': e['g'], 'expect': e.get('expect'), 'input': e['input'],
                    'attempt': e.get('attempt'), 'faults': [f['kind'] for f in e.get('faults', ())]}
        return {k: v for k, v in e.items() if k in ('op', 'g', 'cls', 'values', 'formula')}

    def judge_schedules(self):
        """C17(a): built-in schedules, for attempt numbers >= 1: 1 at the first attempt, within
        [0, 1], never below LinearCredit's minimum, never increasing."""
        seen = set()
        scheds = []
        for gid, g in self.graders.items():
            if g is not None and gid in self.tenants:
                scheds.append(g.config.get('attempt_based_credit'))
        b = Builder(seams.Env('sched'))
        for spec in self.j.get('extra_schedules', ()):
            if 'cls' in spec.get('__credit__', {}):
                scheds.append(b.decode(copy.deepcopy(spec)))
        for sched in scheds:
            if sched is None or type(sched).__name__ not in ('LinearCredit', 'GeometricCredit', 'ReciprocalCredit'):
                continue
            key = (type(sched).__name__, core.digest(sched.config))
            if key in seen:
                continue
            seen.add(key)
            vals = [float(sched(n)) for n in range(1, 201)]
            self.bump(self.refs, 'schedule-sweep')
            desc = '%s(%r)' % (type(sched).__name__, sched.config)
            if vals[0] != 1:
                self.violate('schedule', len(self.j['events']), type(sched).__name__, '%s gives %r at attempt 1' % (desc, vals[0]))
            if any(not (0 <= v <= 1) for v in vals):
                self.violate('schedule', len(self.j['events']), type(sched).__name__, '%s leaves [0, 1]: %r' % (desc, [v for v in vals if not 0 <= v <= 1][:3]))
            if any(b > a + 1e-12 for a, b in zip(vals, vals[1:])):
                k = [k for k, (a, b) in enumerate(zip(vals, vals[1:])) if b > a + 1e-12][0]
                self.violate('schedule', len(self.j['events']), type(sched).__name__,
                             '%s increases from attempt %d (%r) to %d (%r)' % (desc, k + 1, vals[k], k + 2, vals[k + 1]))
            if type(sched).__name__ == 'LinearCredit':
                mn = sched.config['minimum_credit']
                if any(v < mn - 1e-12 for v in vals):
                    self.violate('schedule', len(self.j['events']), 'LinearCredit', '%s goes below its minimum' % desc)
                after, steps = sched.config['decrease_credit_after'], sched.config['decrease_credit_steps']
                if any(v != 1 for v in vals[:after]) or abs(vals[after + steps - 1] - mn) > 1e-4:
                    self.violate('schedule', len(self.j['events']), 'LinearCredit',
                                 '%s: full credit must last %d attempts and reach the minimum %d attempts later: %r'
                                 % (desc, after, steps, vals[:after + steps + 1]))

    def finish(self):
        if 'attempt' in self.judges:
            self.judge_schedules()
        # author-global operations are part of the model: undo them through the public API,
        # then the process must be as good as new
        for cname in REG_CLASSES:
            cls_by_name(cname).clear_registered_defaults()
        for cname in CMP_CLASSES:
            cls_by_name(cname).reset_default_comparer()
        if 'I-author' in self.judges:
            bad = self.builder.author_violations()
            if bad:
                self.violate('I-author', len(self.j['events']), None,
                             "author's configuration objects changed: %s" % bad)
        if 'R2' in self.judges:
            now = probes.probe_suite()
            self.bump(self.refs, 'R2')
            base = self.baseline['probes']
            for name in sorted(base):
                if now.get(name) != base[name]:
                    self.violate('R2', len(self.j['events']), name,
                                 'baseline probe %s: pristine %s ; after this run %s'
                                 % (name, short(base[name]), short(now.get(name))),
                                 sig='R2|' + name)
            badp = probes.parser_agreement(sorted(self.touched))
            for s, a, b in badp[:3]:
                self.violate('R2-parser', len(self.j['events']), 'parser',
                             'parse(%r): shared parser %s ; fresh parser %s' % (s, short(a), short(b)))
