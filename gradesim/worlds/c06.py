"""
C06 -- the assignment solver returns a complete minimum-cost matching, leaves the caller's
matrix alone, terminates, and keeps doing so when one solver object is reused.

World: a pool of Munkres objects (some used once, some long-lived) receives a seeded stream of
solves of different shapes and value families.  F7 (abort-then-reuse): some solves contain an
all-DISALLOWED row so that compute() raises UnsolvableMatrix part-way through, after earlier
rows were already reduced; the following solves on that object are judged normally.
Oracle: exact subset-DP optimum (small executable reference model), structural checks,
deep-copy comparison of the caller's matrix, step budget.
"""
import copy

from gradesim import core, seams
from gradesim.core import load_lib

PALETTE = [0, 0.1, 0.25, 1.0 / 3, 0.5, 0.7, 0.75, 0.9, 1]


def gen_matrix(rng, r, c, family):
    if family == 'int':
        hi = rng.choice([1, 2, 3, 9, 100])
        return [[rng.randint(0, hi) for _ in range(c)] for _ in range(r)]
    if family == 'float':
        return [[rng.random() * rng.choice([1, 10, 1000]) for _ in range(c)] for _ in range(r)]
    if family == 'ties':
        vals = rng.sample([0, 1, 2, 0.5, 1.5, 3], rng.randint(1, 3))
        return [[rng.choice(vals) for _ in range(c)] for _ in range(r)]
    if family == 'grade':
        return [[1 - rng.choice(PALETTE) for _ in range(c)] for _ in range(r)]
    if family == 'rank1':
        a = [rng.randint(0, 5) for _ in range(r)]
        b = [rng.randint(0, 5) for _ in range(c)]
        return [[a[i] + b[j] for j in range(c)] for i in range(r)]
    if family == 'ordered':
        # strongly ordered: cost[i][j] = a_i * b_j with sorted factors (the solver needs the
        # most augmentation steps on these)
        scale = rng.choice([1, 0.01, 1.0 / 3])
        return [[(i + 1) * (j + 1) * scale for j in range(c)] for i in range(r)]
    if family == 'ordered_grade':
        m = float(max(r, c)) ** 2
        return [[1 - (i + 1) * (j + 1) / (m + 1) for j in range(c)] for i in range(r)]
    if family == 'huge':
        # finite costs beyond the machine integer range
        unit = rng.choice([1e19, 1e40, 1e300, 10 ** 25])
        return [[rng.randint(0, 5) * unit for _ in range(c)] for _ in range(r)]
    if family == 'const':
        v = rng.choice([0, 1, 0.3])
        return [[v for _ in range(c)] for _ in range(r)]
    # 'tiny': differences near rounding
    base = rng.random()
    return [[base + rng.choice([0, 1e-12, 1e-9, 0.1]) for _ in range(c)] for _ in range(r)]


def optimum(matrix):
    """Exact minimum total cost of a matching of size min(r, c): DP over column subsets."""
    r, c = len(matrix), len(matrix[0])
    if r > c:
        matrix = [[matrix[i][j] for i in range(r)] for j in range(c)]
        r, c = c, r
    INF = float('inf')
    best = {0: 0.0}
    for i in range(r):
        nxt = {}
        row = matrix[i]
        for mask, cost in best.items():
            for j in range(c):
                bit = 1 << j
                if mask & bit:
                    continue
                val = cost + row[j]
                m2 = mask | bit
                if val < nxt.get(m2, INF):
                    nxt[m2] = val
        best = nxt
    return min(best.values())


class C06World(object):
    PROP = 'C06'

    def plan(self, tier):
        return {'runs': {'quick': 30000, 'thorough': 600000}[tier], 'timeout': 120.0}

    def baseline(self):
        return {}

    def generate(self, rng, tier, idx):
        n_solvers = rng.randint(1, 3)
        fault_free = rng.random() < 0.4
        n_ev = rng.randint(1, 14)
        max_n = rng.choice([3, 4, 6, 6, 8, 10]) if tier == 'quick' else rng.choice([3, 5, 7, 9, 10, 10])
        events = []
        for _ in range(n_ev):
            r = rng.randint(1, max_n)
            c = rng.randint(1, max_n) if rng.random() < 0.6 else r
            fam = rng.choice(['int', 'float', 'ties', 'grade', 'rank1', 'const', 'tiny', 'grade', 'ties',
                              'ordered', 'ordered_grade', 'huge'])
            m = gen_matrix(rng, r, c, fam)
            ev = {'op': 'solve', 'solver': rng.randrange(n_solvers), 'family': fam, 'matrix': m}
            if rng.random() < 0.3:
                # profit matrix converted with make_cost_matrix
                ev['via'] = rng.choice(['invert', 'default'])
            if not fault_free and rng.random() < 0.3:
                # an unsolvable matrix: compute() must give up (UnsolvableMatrix), either at once
                # in step 1 (a row with no allowed entry; needs c >= r, otherwise the padding
                # columns keep the row solvable) or late, in step 6, after stars, primes and
                # covers have been set (a column with no allowed entry; needs r >= c)
                if c >= r and (r < c or rng.random() < 0.5):
                    ev['disallowed_row'] = rng.randrange(r)
                elif r >= c:
                    ev['disallowed_col'] = rng.randrange(c)
            if rng.random() < 0.15:
                ev['fresh'] = True          # a solver object used once
            events.append(ev)
        return {'world': 'c06', 'solvers': n_solvers, 'events': events, 'fault_free': fault_free}

    def execute(self, journal, baseline):
        lib = load_lib()
        mk = lib.munkres
        solvers = {}
        violations = []
        stats, probesd, refs = {}, {}, {}
        log, sig = [], []
        used = {}

        def bump(d, k, n=1):
            d[k] = d.get(k, 0) + n

        def violate(check, i, detail):
            violations.append({'check': check, 'event': i, 'cls': 'Munkres', 'detail': detail[:1500],
                               'sig': '%s|Munkres' % check})

        for i, ev in enumerate(journal['events']):
            key = ev['solver']
            if ev.get('fresh') or key not in solvers:
                solver = mk.Munkres()
                if not ev.get('fresh'):
                    solvers[key] = solver
            else:
                solver = solvers[key]
                bump(probesd, 'solver object reused')
                if used.get(key) == 'aborted':
                    bump(probesd, 'reuse after an aborted solve')
            data = copy.deepcopy(ev['matrix'])
            r, c = len(data), len(data[0])
            via = ev.get('via')
            if via:
                profit = data
                snapshot_p = copy.deepcopy(profit)
                if via == 'invert':
                    cost = mk.make_cost_matrix(profit, lambda x: 1 - x)
                    want = [[1 - x for x in row] for row in profit]
                else:
                    cost = mk.make_cost_matrix(profit)
                    top = max(max(row) for row in profit)
                    want = [[top - x for x in row] for row in profit]
                if cost != want:
                    violate('make_cost_matrix', i, 'cost matrix %r for profit %r' % (cost, profit))
                if profit != snapshot_p:
                    violate('caller-matrix', i, 'make_cost_matrix changed the profit matrix')
                matrix = cost
            else:
                matrix = data
            dis = ev.get('disallowed_row')
            if dis is not None:
                matrix = copy.deepcopy(matrix)
                matrix[dis] = [mk.DISALLOWED for _ in range(c)]
            elif ev.get('disallowed_col') is not None:
                dis = ev['disallowed_col']
                matrix = copy.deepcopy(matrix)
                for row in matrix:
                    row[dis] = mk.DISALLOWED
                bump(stats, 'F7.late_abort(step 6)')
            snapshot = copy.deepcopy(matrix) if dis is None else None
            n = max(r, c)
            # measured on the unchanged tree: at most about 30 n call events per solve (the loops
            # themselves make no calls).  300 n^3 + 5000 leaves room for an implementation that
            # calls a helper per cell and still cuts a spin within a fraction of a second.
            budget = 300 * n ** 3 + 5000
            try:
                o, steps = seams.run_with_budget(lambda: core.outcome(solver.compute, matrix), budget)
            except seams.BudgetExceeded:
                violate('I-budget', i, 'compute() did not finish within %d steps on %dx%d %s matrix %r'
                        % (budget, r, c, ev['family'], ev['matrix']))
                o = {'k': 'exc', 'cls': 'BudgetExceeded', 'msg': '', 'fam': 'other'}
                steps = budget
            log.append([i, core.jdigest(o), steps])
            sig.append([r, c, ev['family'], via, dis is not None, o.get('cls', 'ret')])
            if dis is not None:
                bump(stats, 'F7.aborted_solve')
                used[key] = 'aborted'
                if not (o['k'] == 'exc' and o['cls'] == 'UnsolvableMatrix'):
                    violate('abort', i, 'an unsolvable matrix (all-DISALLOWED row or column) gave %s' % core.short(o))
                continue
            if not ev.get('fresh'):
                used[key] = 'ok'
            if o['k'] != 'ret':
                violate('result', i, 'compute() raised %s on %dx%d %s matrix %r'
                        % (core.short(o), r, c, ev['family'], ev['matrix']))
                continue
            if matrix != snapshot:
                violate('caller-matrix', i, "compute() modified the caller's matrix: %r -> %r"
                        % (snapshot, matrix))
            pairs = [tuple(p['t']) if isinstance(p, dict) else tuple(p) for p in o['v']]
            k = min(r, c)
            rows = [p[0] for p in pairs]
            cols = [p[1] for p in pairs]
            okshape = (len(pairs) == k and len(set(rows)) == k and len(set(cols)) == k and
                       all(isinstance(x, int) and 0 <= x < r for x in rows) and
                       all(isinstance(x, int) and 0 <= x < c for x in cols))
            if not okshape:
                violate('matching', i, 'not a complete matching of size %d for %dx%d: %r (matrix %r)'
                        % (k, r, c, pairs, snapshot))
                continue
            total = sum(snapshot[a][b] for a, b in pairs)
            opt = optimum(snapshot)
            bump(refs, 'subset-DP')
            if abs(total - opt) > 1e-9 * (1 + abs(opt)):
                violate('optimal', i, 'matching %r costs %r but the minimum is %r; %s matrix %r'
                        % (pairs, total, opt, ev['family'], snapshot))
            if r != c:
                bump(probesd, 'rectangular solve')
        kinds = any('disallowed_row' in e or 'disallowed_col' in e for e in journal['events'])
        reused = sum(1 for e in journal['events'] if not e.get('fresh')) >= 2
        sample = {'events': [{'shape': [len(e['matrix']), len(e['matrix'][0])], 'family': e['family'],
                              'solver': e['solver'], 'abort': 'disallowed_row' in e or 'disallowed_col' in e}
                             for e in journal['events'][:8]],
                  'first_matrix': journal['events'][0]['matrix']}
        return {'violations': violations, 'fired': stats, 'probes': probesd, 'refs': refs,
                'events': len(journal['events']), 'sim_time': 0, 'sig': core.jdigest(sig),
                'nontrivial': bool(kinds or reused), 'class': 'fault-injecting' if kinds else 'fault-free',
                'log': core.jdigest(log), 'sample': sample}


WORLD = C06World()
