"""
C10 -- reported name usage is exact and parsing is independent of parse history.

World: several clients share the process-wide parser.
  parse     parse(text) -> reported name sets
  eval      evaluator(text, scope) with a simulator-owned scope (complete, or lacking one name)
  dep       an author constructs DependentSampler(formula=text) (parses at construction)
  grade     a FormulaGrader tenant whose verdict depends on the reported function names
            (blacklist / whitelist / required_functions), with ground-truth verdicts
Strings come from gradesim.gen.formulas with ground truth known by construction; a run uses a
small alphabet so that repeats and cache-key collisions are common.
Faults: F3 (stack exhaustion mid-parse / mid-eval), F1 (user function fails during eval),
F6 (a user function parses / evaluates another string while the outer evaluation is in flight).

Oracle per op: (1) reported names == ground truth (or the expected error class for malformed
strings); (2) outcome == outcome with a freshly constructed MathParser; (3) hence the same
string asked again gives the same outcome; (4) at the end of the run the shared parser and
a fresh parser agree on every string touched (R2).
"""
import random

from gradesim import core, seams, probes
from gradesim.core import load_lib, outcome, short
from gradesim.gen import formulas as F

GRADER_CFGS = [
    # (config, [(input, expected: 'T'|'F'|error class name)])
    ({'answers': 'x+y', 'variables': ['x', 'y'], 'blacklist': ['cos']},
     [('x+y', 'T'), ('y+x', 'T'), ('x+y+0*cos(0)', 'InvalidInput'), ('x+y+0*sin(0)', 'T'),
      ('x-y', 'F'), ('x+y+cos', 'UndefinedVariable'), ('x+y+0*cos(0', 'UnbalancedBrackets'),
      ('x + y + 0*cos( 0 )', 'InvalidInput'), ('x+y+0*Cos(0)', 'UndefinedFunction')]),
    ({'answers': 'sin(x)', 'variables': ['x'], 'whitelist': ['sin']},
     [('sin(x)', 'T'), ('sin(x)+0*cos(0)', 'InvalidInput'), ('sin(x)+0*sin(0)', 'T'),
      ('sin( x )', 'T'), ('cos(x)', 'F'), ('sin(x)+', 'UnableToParse'), ('sin(x)+0*sin', 'UndefinedVariable')]),
    ({'answers': 'x^2', 'variables': ['x'], 'required_functions': ['sqrt']},
     [('x^2', 'InvalidInput'), ('sqrt(x^4)', 'T'), ('x^2+0*sqrt(1)', 'T'), ('x*x', 'InvalidInput'),
      ('sqrt(x)', 'F'), ('sqrt(x^4', 'UnbalancedBrackets'), ('x^2+0*sqrt', 'UndefinedVariable')]),
    ({'answers': '2*x', 'variables': ['x'], 'whitelist': [None]},
     [('2*x', 'T'), ('x+x', 'T'), ('2*x+0*exp(0)', 'InvalidInput'), ('exp(0)*2*x', 'InvalidInput'),
      ('2*x*', 'UnableToParse'), ('3*x', 'F')]),
    ({'answers': 'x+2k', 'variables': ['x'], 'metric_suffixes': True, 'blacklist': ['sin']},
     [('x+2k', 'T'), ('x+2000', 'T'), ('x+2 k', 'T'), ('x+2k+0*sin(0)', 'InvalidInput'),
      ('x+2q', 'UndefinedFunction'), ('x+2k+', 'UnableToParse')]),
]


class C10World(object):
    PROP = 'C10'

    def plan(self, tier):
        return {'runs': {'quick': 4000, 'thorough': 60000}[tier], 'timeout': 60.0}

    def baseline(self):
        return {}

    # ------------------------------------------------------------------
    def generate(self, rng, tier, idx):
        size = rng.choice([4, 8, 12, 12])
        marathon = rng.random() < 0.02
        if marathon:
            size = rng.choice([30, 60])         # many distinct strings: cache growth, delayed effects
        alpha = F.make_alphabet(rng, size=size, depth=rng.choice([1, 2, 3]))
        fault_free = rng.random() < 0.4
        rates = {'F1': 0.0, 'F3': 0.0, 'F6': 0.0}
        if not fault_free:
            for k, p in (('F1', 0.35), ('F3', 0.2), ('F6', 0.4)):
                if rng.random() < 0.67:
                    rates[k] = p
        n_graders = rng.choice([0, 0, 1, 2])
        graders = [rng.randrange(len(GRADER_CFGS)) for _ in range(n_graders)]
        n_ev = rng.randint(2, 12) if tier == 'quick' or rng.random() < 0.7 else rng.randint(12, 40)
        if marathon:
            n_ev = rng.randint(150, 400)
        events = []
        for _ in range(n_ev):
            r = rng.random()
            if graders and r < 0.25:
                gi = rng.randrange(len(graders))
                cases = GRADER_CFGS[graders[gi]][1]
                events.append({'op': 'grade', 'g': gi, 'case': rng.randrange(len(cases)),
                               'subseed': rng.getrandbits(31)})
                continue
            si = rng.randrange(len(alpha))
            ti = rng.randrange(len(alpha[si]['texts']))
            if r < 0.6:
                ev = {'op': 'parse', 's': si, 't': ti}
            elif r < 0.9:
                ev = {'op': 'eval', 's': si, 't': ti, 'scope': rng.choice(['full', 'full', 'missing']),
                      'subseed': rng.getrandbits(31), 'faults': []}
                truth = alpha[si]['truth']
                if truth and truth['f']:
                    fname = rng.choice(truth['f'])
                    if rng.random() < rates['F1']:
                        ev['faults'].append({'kind': 'F1', 'target': 'fn.' + fname, 'k': rng.randrange(2),
                                             'exc': rng.choice(seams.EXC_NAMES_PLAIN + seams.EXC_NAMES_LIB),
                                             'msg': 'scripted'})
                    elif rng.random() < rates['F6']:
                        sj = rng.randrange(len(alpha))
                        ev['faults'].append({'kind': 'F6', 'target': 'fn.' + fname, 'k': 0,
                                             'inner': rng.choice(['parse', 'eval']), 's': sj,
                                             't': rng.randrange(len(alpha[sj]['texts']))})
            elif r < 0.96:
                ev = {'op': 'dep', 's': si, 't': ti}
            else:
                # another consumer of the reported names: a SumGrader whose limits use functions
                ev = {'op': 'sum', 's': si, 't': ti, 'limit': rng.choice(['sqrt(16)', 'abs(-3)', 'floor(4.5)', '4']),
                      'subseed': rng.getrandbits(31)}
            if rng.random() < rates['F3'] and ev['op'] in ('parse', 'eval') and not ev.get('faults'):
                ev['headroom'] = rng.random()
            events.append(ev)
        return {'world': 'c10', 'alphabet': alpha, 'graders': graders, 'events': events,
                'fault_free': fault_free}

    # ------------------------------------------------------------------
    def execute(self, journal, baseline):
        return Run(journal).run()


def names_of(expr):
    return {'v': sorted(expr.variables_used), 'f': sorted(expr.functions_used),
            's': sorted(expr.suffixes_used)}


class Run(object):
    def __init__(self, journal):
        self.lib = load_lib()
        self.calc = __import__('mitxgraders.helpers.calc', fromlist=['x'])
        self.j = journal
        self.alpha = journal['alphabet']
        self.violations = []
        self.stats = {}
        self.probes = {}
        self.refs = {}
        self.log = []
        self.sig = []
        self.touched = set()
        self.env = seams.Env('orig', self.stats)
        self.env.reenter_cb = self.reenter
        self.graders = {}
        self.seen = {}

    def bump(self, d, k, n=1):
        d[k] = d.get(k, 0) + n

    def violate(self, check, i, cls, detail):
        self.violations.append({'check': check, 'event': i, 'cls': cls, 'detail': detail[:1500],
                                'sig': '%s|%s' % (check, cls)})

    # -- scopes ------------------------------------------------------------
    def scope_for(self, truth, env, missing=False):
        variables = {}
        for k, name in enumerate(truth['v']):
            variables[name] = 1.5 + 0.25 * k
        functions = {}
        for name in truth['f']:
            functions[name] = self.make_fn('fn.' + name, env)
        suffixes = {name: 1000.0 for name in truth['s']}
        if missing:
            for d in (variables, functions, suffixes):
                if d:
                    d.pop(sorted(d)[0])
                    break
        return variables, functions, suffixes

    def make_fn(self, name, env):
        def fn(*args):
            k = env.tick(name)
            env.maybe_fail(name, k)
            return args[0] * 0.5 + 1.0
        fn.validated = True
        fn.sim_name = name
        return fn

    def reenter(self, f):
        ent = self.alpha[f['s']]
        text = ent['texts'][f['t']]
        self.touched.add(text)
        if f['inner'] == 'parse':
            o = outcome(lambda: names_of(self.calc.parse(text)))
        else:
            truth = ent['truth'] or {'v': [], 'f': [], 's': []}
            v, fn, s = self.scope_for(truth, seams.Env('inner'))
            o = outcome(lambda: self.calc.evaluator(text, v, fn, s)[0])
        self.env.inner.append({'text': text, 'inner': f['inner'], 'o': o, 'ent': f['s']})

    # -- ops -----------------------------------------------------------------
    def with_f3(self, ev, fn, ref_fn):
        """Run fn under F3 if the event asks for it. Returns (outcome, struck?)."""
        if 'headroom' not in ev:
            return outcome(fn), False
        peak, outside, res, err = seams.measure_peak_depth(lambda: outcome(ref_fn))
        if peak < 30:
            self.bump(self.probes, 'F3 skipped: op too shallow')
            return outcome(fn), False
        headroom = 8 + int(ev['headroom'] * (peak - 8))
        self.bump(self.stats, 'F3.armed')
        o = outcome(lambda: seams.call_with_headroom(fn, headroom))
        return o, True

    def do_parse(self, i, ev):
        ent = self.alpha[ev['s']]
        text = ent['texts'][ev['t']]
        self.touched.add(text)
        fresh = self.lib.expressions.MathParser()
        o, armed = self.with_f3(ev, lambda: names_of(self.calc.parse(text)),
                                lambda: names_of(self.lib.expressions.MathParser().parse(text)))
        o2 = outcome(lambda: names_of(fresh.parse(text)))
        self.bump(self.refs, 'fresh-parser')
        self.judge(i, 'parse', text, ent, o, o2, armed)
        return o

    def judge(self, i, op, text, ent, o, o2, armed, names=None):
        key = (op, text)
        if armed and o != o2:
            if o['k'] == 'exc':
                self.bump(self.stats, 'F3.struck')
                return
        if o != o2:
            self.violate('fresh', i, op, '%s(%r): shared parser gives %s ; a fresh parser gives %s'
                         % (op, text, short(o), short(o2)))
            return
        if key in self.seen:
            self.bump(self.probes, 'string asked again')
        self.seen[key] = o
        got = names if names is not None else (o['v'] if o['k'] == 'ret' else None)
        if op in ('parse', 'eval-names'):
            if ent['truth'] is not None:
                if o['k'] != 'ret':
                    self.violate('truth', i, op, '%s(%r) raised %s ; the string is valid with names %s'
                                 % (op, text, short(o), ent['truth']))
                elif got != ent['truth']:
                    self.violate('truth', i, op, '%s(%r) reports %s ; it contains exactly %s'
                                 % (op, text, got, ent['truth']))
            else:
                if o['k'] != 'exc' or o['cls'] != ent['err']:
                    self.violate('truth', i, op, '%s(%r) gave %s ; the string is malformed (%s expected)'
                                 % (op, text, short(o), ent['err']))
                else:
                    self.bump(self.probes, 'malformed string refused')

    def do_eval(self, i, ev):
        ent = self.alpha[ev['s']]
        text = ent['texts'][ev['t']]
        self.touched.add(text)
        truth = ent['truth'] or {'v': [], 'f': [], 's': []}
        missing = ev['scope'] == 'missing'
        v, f, s = self.scope_for(truth, self.env, missing)
        snap = core.digest([v, sorted(f), s])

        def shared():
            val, meta = self.calc.evaluator(text, v, f, s)
            return {'val': core.canon(val), 'v': sorted(meta.variables_used),
                    'f': sorted(meta.functions_used), 's': sorted(meta.suffixes_used),
                    'dim': meta.max_array_dim_used}
        env2 = seams.Env('replica')
        v2, f2, s2 = self.scope_for(truth, env2, missing)
        fresh = self.lib.expressions.MathParser()

        def ref():
            stripped = text.strip()
            if stripped == '':
                return {'val': core.canon(float('nan')), 'v': [], 'f': [], 's': [], 'dim': 0}
            val, meta = fresh.parse(stripped).eval(v2, f2, s2)
            return {'val': core.canon(val), 'v': sorted(meta.variables_used),
                    'f': sorted(meta.functions_used), 's': sorted(meta.suffixes_used),
                    'dim': meta.max_array_dim_used}
        self.env.begin(ev)
        seams.seed_lib(ev['subseed'])
        o, armed = self.with_f3(ev, shared, lambda: ref())
        inner = list(self.env.inner)
        self.env.end()
        env2.begin(ev)
        seams.seed_lib(ev['subseed'])
        fresh = self.lib.expressions.MathParser()
        o2 = outcome(ref)
        env2.end()
        self.bump(self.refs, 'fresh-parser')
        self.judge(i, 'eval', text, ent, o, o2, armed)
        if o['k'] == 'ret' and not missing and ent['truth'] is not None:
            got = {k: o['v'][k] for k in ('v', 'f', 's')}
            if got != ent['truth']:
                self.violate('truth', i, 'eval', 'evaluator(%r) metadata reports %s ; it contains exactly %s'
                             % (text, got, ent['truth']))
        if core.digest([v, sorted(f), s]) != snap:
            self.violate('scope', i, 'eval', 'evaluator(%r) changed the scope it was given' % text)
        for rec in inner:
            self.bump(self.probes, 're-entrant parse/eval completed')
            ient = self.alpha[rec['ent']]
            fr = self.lib.expressions.MathParser()
            if rec['inner'] == 'parse':
                o3 = outcome(lambda: names_of(fr.parse(rec['text'])))
                if o3 != rec['o']:
                    self.violate('fresh', i, 'inner-parse',
                                 're-entrant parse(%r) gave %s ; a fresh parser gives %s'
                                 % (rec['text'], short(rec['o']), short(o3)))
                self.judge(i, 'parse', rec['text'], ient, rec['o'], o3, False)
        return o

    def do_dep(self, i, ev):
        ent = self.alpha[ev['s']]
        text = ent['texts'][ev['t']]
        self.touched.add(text)
        DS = self.lib.sampling.DependentSampler
        o = outcome(lambda: sorted(DS(formula=text).config['depends']))
        if ent['truth'] is not None:
            if o['k'] != 'ret' or o['v'] != ent['truth']['v']:
                self.violate('truth', i, 'dep', 'DependentSampler(%r) depends=%s ; the formula uses exactly %s'
                             % (text, short(o), ent['truth']['v']))
        else:
            if o['k'] != 'exc' or o['fam'] != 'config':
                self.violate('truth', i, 'dep', 'DependentSampler(%r) gave %s for a malformed formula'
                             % (text, short(o)))
        return o

    def do_sum(self, i, ev):
        """SumGrader collects the functions used in limits and summand; the summand's cached
        name sets must not change because of that (judged by the following parse and by R2)."""
        ent = self.alpha[ev['s']]
        text = ent['texts'][ev['t']]
        self.touched.add(text)
        g = self.lib.mitx.SumGrader(answers={'lower': '1', 'upper': '4', 'summand': 'n', 'summation_variable': 'n'})
        seams.seed_lib(ev['subseed'])
        o = outcome(g, None, ['1', ev['limit'], text, 'n'])
        # ask for the names right away
        fresh = self.lib.expressions.MathParser()
        o1 = outcome(lambda: names_of(self.calc.parse(text)))
        o2 = outcome(lambda: names_of(fresh.parse(text)))
        self.judge(i, 'parse', text, ent, o1, o2, False)
        return o

    def do_grade(self, i, ev):
        gi = ev['g']
        cfg, cases = GRADER_CFGS[self.j['graders'][gi]]
        if gi not in self.graders:
            self.graders[gi] = self.lib.mitx.FormulaGrader(**cfg)
        g = self.graders[gi]
        inp, want = cases[ev['case']]
        self.touched.add(inp)
        seams.seed_lib(ev['subseed'])
        o = outcome(g, None, inp)
        if o['k'] == 'ret':
            got = 'T' if o['v']['ok'] is True else 'F'
        else:
            got = o['cls']
        if got != want:
            self.violate('verdict', i, 'FormulaGrader',
                         'grader %s on %r gave %s ; expected %s (function restrictions depend on the '
                         'reported names)' % (cfg, inp, short(o), want))
        return o

    def run(self):
        events = self.j['events']
        kinds = set()
        for i, ev in enumerate(events):
            op = ev['op']
            o = getattr(self, 'do_' + op)(i, ev)
            self.sig.append([op, ev.get('s'), ev.get('t'), o.get('cls', 'ret'), 'F3' if 'headroom' in ev else '',
                             [f['kind'] for f in ev.get('faults', ())]])
            self.log.append([i, op, core.jdigest(o)])
            for f in ev.get('faults', ()):
                kinds.add(f['kind'])
            if 'headroom' in ev:
                kinds.add('F3')
        bad = probes.parser_agreement(sorted(self.touched))
        self.bump(self.refs, 'R2-parser')
        for s, a, b in bad[:3]:
            self.violate('R2-parser', len(events), 'parser',
                         'after the run parse(%r): shared parser %s ; fresh parser %s' % (s, short(a), short(b)))
        distinct = len(set((e.get('s'), e.get('op')) for e in events))
        sample = {'alphabet': [e['texts'][0] for e in self.alpha][:12],
                  'events': [{k: v for k, v in e.items() if k in ('op', 's', 't', 'scope', 'headroom', 'case')}
                             for e in events[:12]]}
        return {'violations': self.violations, 'fired': self.stats, 'probes': self.probes,
                'refs': self.refs, 'events': len(events), 'sim_time': 0,
                'sig': core.jdigest(self.sig), 'nontrivial': bool(kinds) or distinct >= 2,
                'class': 'fault-injecting' if kinds else 'fault-free',
                'log': core.jdigest(self.log), 'sample': sample}


WORLD = C10World()
