"""
C12 -- every random draw satisfies all constraints its sampling set declares.

The process-wide RNG is the environment.  Sampler tenants of every class that can run
without scipy draw from the ONE global stream in a scheduler-chosen interleaving, in honest
and in edge-draw (F4) mode; random functions drawn early are evaluated late, after other
tenants have advanced the stream ("a fixed function once drawn" is a history property);
a retry fault makes an array sampler's shadowable hook raise Retry k times.

Oracle: membership predicates written from the documentation (the *declared* constraints
come from the journal's spec, never from the object's own config), with tolerances scaled
to the sample; under a forced endpoint draw an IntegerRange must return exactly its
declared endpoint; step budget on every gen_sample.
"""
import cmath
import math

from gradesim import core, seams
from gradesim.blueprints import Builder
from gradesim.core import load_lib, outcome2, short

SYMS = [None, 'diagonal', 'symmetric', 'antisymmetric', 'hermitian', 'antihermitian']


def interval(rng):
    form = rng.randrange(7)
    if form == 0:
        return [1, 5]
    if form == 1:
        a = rng.choice([-3.5, 0, 2, 10.25])
        return [a, a]                       # degenerate
    if form == 2:
        return [5, 1]                       # reversed
    if form == 3:
        return [-4, -1.5]
    if form == 4:
        return [-2, 3]
    if form == 5:
        return [0.001, 0.002]
    a, b = rng.uniform(-10, 10), rng.uniform(-10, 10)
    return [round(a, 3), round(b, 3)]


def int_interval(rng):
    form = rng.randrange(6)
    if form == 0:
        return [1, 5]
    if form == 1:
        a = rng.randint(-5, 5)
        return [a, a]
    if form == 2:
        return [6, 2]
    if form == 3:
        a = rng.randint(-9, 9)
        return [a, a + 1]
    if form == 4:
        return [-7, -3]
    return [rng.randint(-10, 0), rng.randint(0, 10)]


def gen_sampler(rng):
    kind = rng.choices(
        ['RealInterval', 'IntegerRange', 'ComplexRectangle', 'ComplexSector', 'DiscreteSet',
         'SpecificFunctions', 'RandomFunction', 'RealVectors', 'ComplexVectors', 'RealMatrices',
         'ComplexMatrices', 'RealTensors', 'ComplexTensors', 'IdentityMatrixMultiples', 'SquareMatrices',
         'ArraySamplingSet', 'Retry'],
        [2, 2.5, 1.5, 1.5, 1.5, 1, 4, 1.5, 1.5, 2, 2, 1, 1, 2, 7, 1, 1.5])[0]
    spec = {'cls': kind}
    if kind == 'RealInterval':
        spec['range'] = interval(rng)
        spec['cfg'] = spec['range'] if rng.random() < 0.5 else {'start': spec['range'][0], 'stop': spec['range'][1]}
    elif kind == 'IntegerRange':
        spec['range'] = int_interval(rng)
        spec['cfg'] = spec['range'] if rng.random() < 0.5 else {'start': spec['range'][0], 'stop': spec['range'][1]}
    elif kind == 'ComplexRectangle':
        spec['re'], spec['im'] = interval(rng), interval(rng)
        spec['cfg'] = {'re': spec['re'], 'im': spec['im']}
    elif kind == 'ComplexSector':
        m0 = rng.choice([0, 0.5, 1, 2])
        spec['modulus'] = [m0, m0 + rng.choice([0, 0.5, 2])]
        a0 = rng.choice([0, -math.pi, -1.0, 2.0])
        spec['argument'] = [a0, a0 + rng.choice([0, 0.5, math.pi / 2, 1.9 * math.pi])]
        if rng.random() < 0.2:
            spec['argument'] = list(reversed(spec['argument']))
        spec['cfg'] = {'modulus': spec['modulus'], 'argument': spec['argument']}
    elif kind == 'DiscreteSet':
        n = rng.randint(1, 5)
        vals = [rng.choice([0, 1, 2.5, -3, 7, 1.5, 100]) for _ in range(n)]
        if rng.random() < 0.3:
            vals.append({'__arr__': [[1, 0], [0, 1]]})
        spec['n'] = len(vals)
        spec['cfg'] = {'__tuple__': vals} if len(vals) > 1 or rng.random() < 0.5 else vals[0]
        if not isinstance(spec['cfg'], dict) or '__tuple__' not in spec['cfg']:
            spec['n'] = 1
    elif kind == 'SpecificFunctions':
        n = rng.randint(1, 4)
        spec['n'] = n
        spec['cfg'] = [{'__fn__': {'name': 'sf%d' % k, 'kind': 'square'}} for k in range(n)]
    elif kind == 'RandomFunction':
        cfg = {}
        if rng.random() < 0.8:
            cfg['input_dim'] = rng.randint(1, 4)
        if rng.random() < 0.6:
            cfg['output_dim'] = rng.randint(1, 3)
        if rng.random() < 0.6:
            cfg['num_terms'] = rng.choice([1, 2, 3, 5, 8])
        if rng.random() < 0.5:
            cfg['center'] = rng.choice([0, 0.5, -3, 10])
        if rng.random() < 0.6:
            cfg['amplitude'] = rng.choice([0.5, 1, 2, 10])
        if rng.random() < 0.3:
            cfg['complex'] = True
        spec['cfg'] = cfg
    elif kind in ('RealVectors', 'ComplexVectors'):
        n = rng.randint(1, 6)
        spec['shape'] = [n]
        spec['norm'] = interval_pos(rng)
        spec['cfg'] = {'shape': rng.choice([n, [n], {'__tuple__': [n]}]), 'norm': spec['norm']}
        if rng.random() < 0.3:
            del spec['cfg']['norm']
            spec['norm'] = [1, 5]
        if rng.random() < 0.2 and n == 3:
            del spec['cfg']['shape']
    elif kind in ('RealMatrices', 'ComplexMatrices'):
        r, c = rng.randint(1, 4), rng.randint(1, 4)
        spec['shape'] = [r, c]
        spec['norm'] = interval_pos(rng)
        spec['cfg'] = {'shape': [r, c], 'norm': spec['norm']}
        if rng.random() < 0.4:
            spec['triangular'] = rng.choice(['upper', 'lower'])
            spec['cfg']['triangular'] = spec['triangular']
    elif kind in ('RealTensors', 'ComplexTensors'):
        nd = rng.choice([3, 3, 4])
        spec['shape'] = [rng.randint(1, 3) for _ in range(nd)]
        spec['norm'] = interval_pos(rng)
        spec['cfg'] = {'shape': spec['shape'], 'norm': spec['norm']}
    elif kind == 'ArraySamplingSet':
        nd = rng.randint(1, 4)
        spec['shape'] = [rng.randint(1, 3) for _ in range(nd)]
        spec['norm'] = interval_pos(rng)
        spec['complex'] = rng.random() < 0.5
        spec['cfg'] = {'shape': spec['shape'], 'norm': spec['norm'], 'complex': spec['complex']}
    elif kind == 'IdentityMatrixMultiples':
        spec['dimension'] = rng.randint(2, 5)
        which = rng.randrange(5)
        cfg = {'dimension': spec['dimension']}
        if which == 0:
            spec['scalar'] = {'cls': 'RealInterval', 'range': [1, 5]}
        elif which == 1:
            rngv = interval(rng)
            spec['scalar'] = {'cls': 'RealInterval', 'range': rngv}
            cfg['sampler'] = rngv
        elif which == 2:
            rngv = int_interval(rng)
            spec['scalar'] = {'cls': 'IntegerRange', 'range': rngv}
            cfg['sampler'] = {'__obj__': {'cls': 'IntegerRange', 'cfg': rngv}}
        elif which == 3:
            spec['scalar'] = {'cls': 'ComplexRectangle', 're': [1, 3], 'im': [-2, -1]}
            cfg['sampler'] = {'__obj__': {'cls': 'ComplexRectangle', 'cfg': {'re': [1, 3], 'im': [-2, -1]}}}
        else:
            spec['scalar'] = {'cls': 'ComplexSector', 'modulus': [1, 2], 'argument': [0, 1]}
            cfg['sampler'] = {'__obj__': {'cls': 'ComplexSector', 'cfg': {'modulus': [1, 2], 'argument': [0, 1]}}}
        spec['cfg'] = cfg
    elif kind == 'SquareMatrices':
        # mostly small; sometimes large enough that a product of n entries below 1 is tiny
        # without the matrix being anywhere near singular
        spec['dimension'] = rng.randint(2, 5) if rng.random() < 0.85 else rng.choice([6, 8, 12, 16, 20])
        spec['symmetry'] = rng.choice(SYMS)
        spec['traceless'] = rng.random() < 0.4
        spec['determinant'] = rng.choice([None, None, 0, 1])
        spec['complex'] = rng.random() < 0.4
        spec['norm'] = interval_pos(rng)
        spec['cfg'] = {'dimension': spec['dimension'], 'symmetry': spec['symmetry'],
                       'traceless': spec['traceless'], 'determinant': spec['determinant'],
                       'complex': spec['complex'], 'norm': spec['norm']}
        spec['may_refuse'] = True
    elif kind == 'Retry':
        spec['shape'] = [2, 2]
        spec['norm'] = [1, 5]
        spec['k'] = rng.choice([0, 1, 2, 5, 50, 99, 100, 101, 150])
        spec['hook'] = rng.choice(['normalize', 'apply_symmetry'])
        spec['cfg'] = {'shape': [2, 2]}
    return spec


def interval_pos(rng):
    form = rng.randrange(5)
    if form == 0:
        return [1, 5]
    if form == 1:
        return [2, 2]
    if form == 2:
        return [6, 10]
    if form == 3:
        return [10, 6]
    return [0.5, 0.75]


class C12World(object):
    PROP = 'C12'

    def plan(self, tier):
        return {'runs': {'quick': 15000, 'thorough': 300000}[tier], 'timeout': 60.0}

    def baseline(self):
        return {}

    def generate(self, rng, tier, idx):
        n_s = rng.randint(1, 6)
        samplers = [gen_sampler(rng) for _ in range(n_s)]
        mode = 'edge' if rng.random() < 0.5 else 'record'
        events = []
        n_ev = rng.randint(3, 40)
        fns = 0
        for _ in range(n_ev):
            if fns and rng.random() < 0.3:
                events.append({'op': 'evalfn', 'h': rng.randrange(fns), 'npts': rng.randint(1, 6),
                               'pseed': rng.getrandbits(31)})
                continue
            si = rng.randrange(n_s)
            events.append({'op': 'draw', 's': si})
            if samplers[si]['cls'] == 'RandomFunction':
                fns += 1
        # small integer ranges get many draws so that endpoint attainment can be judged
        for si, sp in enumerate(samplers):
            if sp['cls'] == 'IntegerRange' and abs(sp['range'][1] - sp['range'][0]) == 1 and rng.random() < 0.5:
                events += [{'op': 'draw', 's': si} for _ in range(90)]
                sp['attain'] = True
        return {'world': 'c12', 'samplers': samplers, 'events': events, 'rng': mode,
                'seed': rng.getrandbits(31), 'edge_p': rng.choice([0.05, 0.15, 0.4]),
                'fault_free': mode != 'edge'}

    def execute(self, journal, baseline):
        return Run(journal).run()


class Run(object):
    def __init__(self, journal):
        self.lib = load_lib()
        self.np = self.lib.np
        self.j = journal
        self.violations = []
        self.stats, self.probes, self.refs = {}, {}, {}
        self.env = seams.Env('orig', self.stats)
        self.b = Builder(self.env)
        self.objs = {}
        self.refused = {}
        self.fns = []        # [sampler index, function, {point: value}]
        self.seen_vals = {}
        self.layer = None

    def bump(self, d, k, n=1):
        d[k] = d.get(k, 0) + n

    def violate(self, check, i, cls, detail):
        self.violations.append({'check': check, 'event': i, 'cls': cls, 'detail': detail[:1500],
                                'sig': '%s|%s' % (check, cls)})

    def build(self, si):
        sp = self.j['samplers'][si]
        lib = self.lib
        if sp['cls'] == 'Retry':
            Retry = lib.matrixsampling.Retry
            base = lib.matrixsampling.RealMatrices
            k, hook = sp['k'], sp['hook']
            state = {'left': 0}

            class RetryingMatrices(base):
                """author subclass shadowing a hook that 'exists to be shadowed'"""
                def normalize(self, array):
                    if hook == 'normalize' and state['left'] > 0:
                        state['left'] -= 1
                        raise Retry()
                    return super(RetryingMatrices, self).normalize(array)

                def apply_symmetry(self, array):
                    if hook == 'apply_symmetry' and state['left'] > 0:
                        state['left'] -= 1
                        raise Retry()
                    return super(RetryingMatrices, self).apply_symmetry(array)
            obj = RetryingMatrices(**sp['cfg'])
            obj._state = state
            return obj
        from gradesim.blueprints import cls_by_name
        cls = cls_by_name(sp['cls'])
        cfg = self.b.decode(sp['cfg'])
        if isinstance(cfg, dict):
            return cls(**cfg)
        return cls(cfg)

    def get(self, i, si):
        if si in self.objs or si in self.refused:
            return self.objs.get(si)
        sp = self.j['samplers'][si]
        o, obj = outcome2(self.build, si)
        if obj is None:
            self.refused[si] = o
            if sp.get('may_refuse') and o['fam'] == 'config':
                self.bump(self.probes, 'constructor refused a SquareMatrices combination')
            else:
                self.violate('construct', i, sp['cls'], 'valid sampler configuration %r refused: %s'
                             % (sp['cfg'], short(o)))
            return None
        self.objs[si] = obj
        return obj

    # -- predicates ----------------------------------------------------------
    def in_range(self, v, rng_pair, tol=1e-12):
        lo, hi = min(rng_pair), max(rng_pair)
        slack = tol * max(1.0, abs(lo), abs(hi))
        return lo - slack <= v <= hi + slack

    def check_scalar(self, sp, v):
        np = self.np
        cls = sp['cls']
        if cls == 'RealInterval':
            if isinstance(v, bool) or not isinstance(v, (float, int, np.floating)):
                return 'not a real number: %r' % (v,)
            if not self.in_range(float(v), sp['range']):
                return '%r outside %r' % (v, sp['range'])
        elif cls == 'IntegerRange':
            if isinstance(v, bool) or not isinstance(v, (int, np.integer)):
                return 'not an integer: %r (%s)' % (v, type(v).__name__)
            if not min(sp['range']) <= int(v) <= max(sp['range']):
                return '%r outside %r' % (v, sp['range'])
        elif cls == 'ComplexRectangle':
            z = complex(v)
            if not self.in_range(z.real, sp['re']) or not self.in_range(z.imag, sp['im']):
                return '%r outside rectangle re=%r im=%r' % (v, sp['re'], sp['im'])
        elif cls == 'ComplexSector':
            z = complex(v)
            if not self.in_range(abs(z), sp['modulus'], 1e-9):
                return '|%r|=%r outside modulus range %r' % (v, abs(z), sp['modulus'])
            if abs(z) > 1e-9:
                a0, a1 = min(sp['argument']), max(sp['argument'])
                ph = cmath.phase(z)
                ok = False
                for shift in (-4 * math.pi, -2 * math.pi, 0, 2 * math.pi, 4 * math.pi):
                    if a0 - 1e-9 <= ph + shift <= a1 + 1e-9:
                        ok = True
                if not ok:
                    return 'arg(%r)=%r outside argument range %r' % (v, ph, sp['argument'])
        return None

    def check_array(self, sp, v, complex_expected):
        np = self.np
        MA = self.lib.math_array.MathArray
        if not isinstance(v, MA):
            return 'not a MathArray: %s' % type(v).__name__
        if list(v.shape) != list(sp['shape']):
            return 'shape %r, declared %r' % (list(v.shape), sp['shape'])
        if complex_expected is True and not np.iscomplexobj(v):
            return 'complex sampler returned a real array'
        if complex_expected is False and np.iscomplexobj(v):
            return 'real sampler returned a complex array'
        if not np.all(np.isfinite(v)):
            return 'non-finite entries'
        if sp.get('norm') is not None:
            nrm = float(np.linalg.norm(np.asarray(v)))
            if not self.in_range(nrm, sp['norm'], 1e-9):
                return 'norm %r outside %r' % (nrm, sp['norm'])
        tri = sp.get('triangular')
        if tri == 'upper' and np.any(np.tril(np.asarray(v), -1) != 0):
            return 'not upper triangular'
        if tri == 'lower' and np.any(np.triu(np.asarray(v), 1) != 0):
            return 'not lower triangular'
        return None

    def check_square(self, sp, v):
        np = self.np
        n = sp['dimension']
        sym = sp['symmetry']
        cplx = sp['complex'] or sym in ('hermitian', 'antihermitian')
        sp2 = {'shape': [n, n], 'norm': sp['norm'] if sp['determinant'] != 1 else None}
        err = self.check_array(sp2, v, None)
        if err:
            return err
        a = np.asarray(v)
        if not cplx and np.iscomplexobj(a):
            return 'real matrices requested, complex returned'
        if cplx and not np.iscomplexobj(a):
            return 'complex matrices requested, real returned'
        if sym == 'diagonal' and not np.array_equal(np.diag(np.diag(a)), a):
            return 'not diagonal'
        if sym == 'symmetric' and not np.array_equal(a, a.T):
            return 'not symmetric'
        if sym == 'antisymmetric' and not np.array_equal(a, -a.T):
            return 'not antisymmetric'
        if sym == 'hermitian' and not np.array_equal(a, np.conj(a.T)):
            return 'not hermitian'
        if sym == 'antihermitian' and not np.array_equal(a, -np.conj(a.T)):
            return 'not antihermitian'
        nrm = float(np.linalg.norm(a))
        if sp['traceless'] and abs(np.trace(a)) > 1e-10 * max(1.0, nrm):
            return 'trace %r' % (np.trace(a),)
        det = np.linalg.det(a)
        scale = max(1.0, nrm ** n)
        if sp['determinant'] == 0 and abs(det) > 1e-9 * scale:
            return 'determinant %r, requested 0 (norm %r)' % (det, nrm)
        if sp['determinant'] == 0:
            # norm**n is a generous scale in large dimensions; singular "to numerical precision"
            # also means a (relatively) vanishing smallest singular value
            sv = np.linalg.svd(a, compute_uv=False)
            if sv[0] > 0 and sv[-1] > 1e-6 * sv[0]:
                return ('determinant 0 requested, but the matrix is well conditioned: singular values '
                        'from %r down to %r (determinant %r)' % (float(sv[0]), float(sv[-1]), det))
        if sp['determinant'] == 1 and abs(det - 1) > 1e-9 * scale:
            return 'determinant %r, requested 1 (norm %r)' % (det, nrm)
        return None

    def check_sample(self, i, si, sp, v, subs):
        cls = sp['cls']
        err = None
        if cls in ('RealInterval', 'IntegerRange', 'ComplexRectangle', 'ComplexSector'):
            err = self.check_scalar(sp, v)
            if err is None and cls == 'IntegerRange':
                for sub in subs:
                    if sub[0] == 'randint':
                        want = min(sp['range']) if sub[1] == 'low' else max(sp['range'])
                        self.bump(self.probes, 'integer endpoint forced')
                        if int(v) != want:
                            err = ('forced %s endpoint draw gave %r, declared endpoint is %r'
                                   % (sub[1], v, want))
                self.seen_vals.setdefault(si, set()).add(int(v))
        elif cls == 'DiscreteSet':
            cfg = self.objs[si].config
            if not any(v is m for m in cfg):
                err = '%r is not a listed member' % (v,)
            if len(cfg) != sp['n']:
                err = 'config has %d members, %d declared' % (len(cfg), sp['n'])
        elif cls == 'SpecificFunctions':
            cfg = self.objs[si].config
            if not any(v is m for m in cfg) or not callable(v):
                err = 'returned object is not one of the listed functions'
        elif cls == 'RandomFunction':
            return self.check_randfn_draw(i, si, sp, v)
        elif cls in ('RealVectors', 'RealMatrices', 'RealTensors'):
            err = self.check_array(sp, v, False)
        elif cls in ('ComplexVectors', 'ComplexMatrices', 'ComplexTensors'):
            err = self.check_array(sp, v, True)
        elif cls == 'ArraySamplingSet':
            err = self.check_array(sp, v, sp['complex'])
        elif cls == 'IdentityMatrixMultiples':
            np = self.np
            n = sp['dimension']
            a = np.asarray(v)
            if not isinstance(v, self.lib.math_array.MathArray) or a.shape != (n, n):
                err = 'shape %r' % (a.shape,)
            elif not np.array_equal(a, a[0, 0] * np.eye(n)):
                err = 'not a multiple of the identity'
            else:
                sc = sp['scalar']
                val = a[0, 0]
                if sc['cls'] in ('RealInterval', 'IntegerRange'):
                    if np.iscomplexobj(a) and abs(complex(val).imag) > 0:
                        err = 'complex multiple from a real scalar sampler'
                    else:
                        x = float(np.real(val))
                        if sc['cls'] == 'IntegerRange' and x != int(x):
                            err = 'non-integer multiple %r' % x
                        elif not self.in_range(x, sc['range']):
                            err = 'multiple %r outside %r' % (x, sc['range'])
                else:
                    err = self.check_scalar(sc, complex(val))
        elif cls == 'SquareMatrices':
            err = self.check_square(sp, v)
        elif cls == 'Retry':
            err = self.check_array(sp, v, False)
        if err:
            self.violate('member', i, cls, '%s drawn from %s(%r): %s' %
                         (short({'k': 'ret', 'v': core.canon(v)}, 300), cls, sp['cfg'], err))

    def check_randfn_draw(self, i, si, sp, fn):
        cfg = sp['cfg']
        nin = cfg.get('input_dim', 1)
        if not callable(fn):
            return self.violate('member', i, 'RandomFunction', 'gen_sample returned a non-callable')
        if getattr(fn, 'nin', None) != nin:
            self.violate('member', i, 'RandomFunction', 'declared arity %d, function reports %r'
                         % (nin, getattr(fn, 'nin', None)))
        self.fns.append([si, fn, {}])
        self.eval_fn(i, len(self.fns) - 1, 2, 1234 + i)
        return None

    def eval_fn(self, i, h, npts, pseed):
        import random as _r
        si, fn, memo = self.fns[h]
        sp = self.j['samplers'][si]
        cfg = sp['cfg']
        nin, nout = cfg.get('input_dim', 1), cfg.get('output_dim', 1)
        center, amp = cfg.get('center', 0), cfg.get('amplitude', 10)
        cplx = cfg.get('complex', False)
        prng = _r.Random(pseed)
        np = self.np
        pts = [tuple(round(prng.uniform(-20, 20), 3) for _ in range(nin)) for _ in range(npts)]
        pts += list(memo.keys())[:3]          # re-evaluate earlier points: a fixed function once drawn
        for pt in pts:
            o, val = outcome2(fn, *pt)
            if o['k'] != 'ret':
                self.violate('member', i, 'RandomFunction', 'random function raised %s at %r' % (short(o), pt))
                continue
            if pt in memo:
                self.bump(self.probes, 'random function re-evaluated later')
                if memo[pt] != o:
                    self.violate('member', i, 'RandomFunction',
                                 'drawn function changed: f%r was %s, now %s' % (pt, short(memo[pt]), short(o)))
                continue
            memo[pt] = o
            if nout == 1:
                if isinstance(val, np.ndarray) and val.ndim > 0:
                    self.violate('member', i, 'RandomFunction', 'output_dim 1 but array returned: %s' % short(o))
                    continue
                vals = [complex(val)]
            else:
                if not isinstance(val, self.lib.math_array.MathArray) or val.shape != (nout,):
                    self.violate('member', i, 'RandomFunction',
                                 'output_dim %d but returned %s' % (nout, short(o)))
                    continue
                vals = [complex(x) for x in np.asarray(val).tolist()]
            for z in vals:
                if not cplx and abs(z.imag) > 0:
                    self.violate('member', i, 'RandomFunction', 'real function returned complex %r' % z)
                dist = abs(z - center)
                if not dist <= amp * (1 + 1e-9):
                    self.violate('member', i, 'RandomFunction',
                                 'f%r = %r lies %.4g from center %r, declared amplitude %r (config %r)'
                                 % (pt, z, dist, center, amp, cfg))
                    break
        # wrong number of arguments must be refused
        if nin >= 1:
            o, _ = outcome2(fn, *([0.5] * (nin + 1)))
            if o['k'] != 'exc':
                self.violate('member', i, 'RandomFunction', 'accepted %d arguments, declared %d' % (nin + 1, nin))

    # ------------------------------------------------------------------
    def run(self):
        j = self.j
        seams.seed_lib(j['seed'])
        log, sig = [], []
        layer = seams.RngLayer(j['rng'], edge_seed=j['seed'] ^ 0xE, p=j.get('edge_p', 0.15), stats=self.stats)
        with layer:
            for i, ev in enumerate(j['events']):
                if ev['op'] == 'evalfn':
                    if ev['h'] < len(self.fns):
                        self.eval_fn(i, ev['h'], ev['npts'], ev['pseed'])
                        log.append([i, 'evalfn'])
                    continue
                si = ev['s']
                sp = j['samplers'][si]
                obj = self.get(i, si)
                if obj is None:
                    continue
                if sp['cls'] == 'Retry':
                    obj._state['left'] = sp['k']
                    self.bump(self.stats, 'F.retry_k=%d' % sp['k'])
                layer.subs = []
                try:
                    (o, v), steps = seams.run_with_budget(lambda: outcome2(obj.gen_sample), 400000)
                except seams.BudgetExceeded:
                    self.violate('I-budget', i, sp['cls'], 'gen_sample did not finish within 400000 steps: %r' % (sp['cfg'],))
                    continue
                log.append([i, core.jdigest(o), layer.draws])
                sig.append([sp['cls'], o.get('cls', 'ret'), len(layer.subs)])
                if sp['cls'] == 'Retry':
                    if sp['k'] >= 100:
                        if not (o['k'] == 'exc' and o['cls'] == 'ValueError'):
                            self.violate('retry', i, 'Retry', 'hook raised Retry %d times; expected ValueError, got %s'
                                         % (sp['k'], short(o)))
                        else:
                            self.bump(self.probes, 'retry loop gave up after 100')
                        continue
                    if sp['k'] >= 2:
                        self.bump(self.probes, 'retry loop >= 2 iterations')
                if o['k'] != 'ret':
                    self.violate('member', i, sp['cls'], 'gen_sample raised %s for %s(%r)' % (short(o), sp['cls'], sp['cfg']))
                    continue
                self.check_sample(i, si, sp, v, list(layer.subs))
        for si, sp in enumerate(j['samplers']):
            if sp.get('attain') and si in self.seen_vals:
                want = set(range(min(sp['range']), max(sp['range']) + 1))
                if self.seen_vals[si] != want:
                    self.violate('member', len(j['events']), 'IntegerRange',
                                 'over 90 draws IntegerRange(%r) produced only %r' % (sp['range'], sorted(self.seen_vals[si])))
                else:
                    self.bump(self.probes, 'both integer endpoints attained')
        classes = sorted(set(sp['cls'] for sp in j['samplers']))
        sample = {'samplers': [{'cls': sp['cls'], 'cfg': sp['cfg']} for sp in j['samplers'][:4]],
                  'rng': j['rng'], 'events': len(j['events'])}
        return {'violations': self.violations, 'fired': self.stats, 'probes': self.probes,
                'refs': {'membership-predicates': len(log)}, 'events': len(j['events']), 'sim_time': 0,
                'sig': core.jdigest([classes, sig]), 'nontrivial': len(j['samplers']) >= 2 or j['rng'] == 'edge',
                'class': 'fault-injecting' if j['rng'] == 'edge' or 'Retry' in classes else 'fault-free',
                'log': core.jdigest(log), 'sample': sample}


WORLD = C12World()
