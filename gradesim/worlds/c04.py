"""
C04 -- a formula is marked correct exactly when enough samples agree within tolerance.

The random samples are the nondeterminism and failable_evals is a fault budget: "tolerates
at most f disagreeing samples out of N".  The scheduler owns both: variables are sampled
from an author-defined recording sampling set (SimSampler, an official extension point) that
hands out scheduled, pairwise distinct values, and the student's formula contains a scripted
user function dev(x) that, for the k-th handed-out sample, returns the scheduled deviation:
exactly on the answer, just inside the tolerance, just outside, or far outside.  So the
scheduler chooses per sample whether that sample is a "fault" and how close to the boundary.

Oracle (from the recorded history only): expected_k from the generator's own Python function
for the answer; threshold_k = t, or p% of |expected_k| (Frobenius norm for arrays);
verdict must be the answer's credit iff (N == 1 ? no bad sample : #bad <= f), else zero.
A relative guard band of 1e-4 around each threshold is never scheduled.
"""
import cmath
import math

from gradesim import core, seams
from gradesim.core import load_lib, outcome, short

XS = [1.25, 1.75, 2.25, 2.75, 3.25, 3.75, 4.25, 4.75]
YS = [2.1, 2.4, 2.7, 3.0, 3.3, 3.6, 3.9, 4.2]

# (name, grader class, answer string, variables, python function of (x, y) -> value,
#  kind, E string or None, norm of E)
PROBLEMS = [
    ('poly', 'FormulaGrader', 'x^2+1', ['x'], lambda x, y: x * x + 1, 'scalar', None, 1.0),
    ('lin', 'FormulaGrader', '2*x+y', ['x', 'y'], lambda x, y: 2 * x + y, 'scalar', None, 1.0),
    ('par', 'FormulaGrader', 'x*y/(x+y)', ['x', 'y'], lambda x, y: x * y / (x + y), 'scalar', None, 1.0),
    ('trig', 'FormulaGrader', 'sin(x)+3', ['x'], lambda x, y: math.sin(x) + 3, 'scalar', None, 1.0),
    ('neg', 'FormulaGrader', '-x^3', ['x'], lambda x, y: -x ** 3, 'scalar', None, 1.0),
    ('cplx', 'FormulaGrader', 'x*(1+2*i)', ['x'], lambda x, y: x * (1 + 2j), 'complex', None, 1.0),
    ('cexp', 'FormulaGrader', 'x^2*e^(i*y)', ['x', 'y'], lambda x, y: x * x * cmath.exp(1j * y), 'complex',
     None, 1.0),
    ('mat', 'MatrixGrader', 'x*[[1,2],[3,4]]', ['x'], lambda x, y: ('arr', [x, 2 * x, 3 * x, 4 * x]),
     'array', '[[1,1],[1,1]]', 2.0),
    ('mat1', 'MatrixGrader', 'x*[[1,2],[3,4]]+y*[[0,1],[1,0]]', ['x', 'y'],
     lambda x, y: ('arr', [x, 2 * x + y, 3 * x + y, 4 * x]), 'array', '[[1,0],[0,0]]', 1.0),
    # complex arrays; the deviation direction has entries of different phases (a norm that
    # forgets to conjugate collapses it)
    ('cmat', 'MatrixGrader', 'x*[[1,2],[3,4]]', ['x'], lambda x, y: ('arr', [x, 2 * x, 3 * x, 4 * x]),
     'array', '[[1,i],[0,0]]', math.sqrt(2.0)),
    ('cvec', 'MatrixGrader', 'x*[1+i, 2, i]', ['x'], lambda x, y: ('arr', [x * (1 + 1j), 2 * x, x * 1j]),
     'array', '[1,i,1+i]', 2.0),
    ('vec', 'MatrixGrader', '[x, y, x*y]', ['x', 'y'], lambda x, y: ('arr', [x, y, x * y]), 'array',
     '[0,3,4]', 5.0),
    # answers that are exactly zero at the first sample: a percentage of zero is zero
    ('zero', 'FormulaGrader', 'x-1.25', ['x'], lambda x, y: x - 1.25, 'scalar', None, 1.0),
    ('czero', 'FormulaGrader', '(x-1.25)*(2+i)', ['x'], lambda x, y: (x - 1.25) * (2 + 1j), 'complex', None, 1.0),
    ('matzero', 'MatrixGrader', '(x-1.25)*[[1,2],[3,4]]', ['x'],
     lambda x, y: ('arr', [(x - 1.25), 2 * (x - 1.25), 3 * (x - 1.25), 4 * (x - 1.25)]), 'array', '[[1,1],[1,1]]', 2.0),
    ('numzero', 'NumericalGrader', '0', [], lambda x, y: 0.0, 'scalar', None, 1.0),
    # a variable-free answer that still changes from sample to sample: f is an (author-defined)
    # function sampling set handing out f_k(t) = t + x_k; x is the value f(2) - 2
    ('rfn', 'FormulaGrader', 'f(2)+1', [], lambda x, y: x + 3.0, 'scalar', None, 1.0),
    ('rfn2', 'FormulaGrader', 'f(2)*f(2)', [], lambda x, y: (x + 2.0) ** 2, 'scalar', None, 1.0),
    # magnitudes whose squares leave the floating-point range
    ('huge', 'FormulaGrader', 'x*1e160', ['x'], lambda x, y: x * 1e160, 'scalar', None, 1.0),
    ('tiny', 'FormulaGrader', 'x*1e-170', ['x'], lambda x, y: x * 1e-170, 'scalar', None, 1.0),
    ('chuge', 'FormulaGrader', 'x*1e160*(1+i)', ['x'], lambda x, y: x * 1e160 * (1 + 1j), 'complex', None, 1.0),
    ('numhuge', 'NumericalGrader', '2.5e200', [], lambda x, y: 2.5e200, 'scalar', None, 1.0),
    ('numtiny', 'NumericalGrader', '4e-200', [], lambda x, y: 4e-200, 'scalar', None, 1.0),
    # ... and the same for arrays, whose Frobenius norm squares every entry
    ('mathuge', 'MatrixGrader', 'x*1e160*[[1,2],[3,4]]', ['x'],
     lambda x, y: ('arr', [x * 1e160, 2 * x * 1e160, 3 * x * 1e160, 4 * x * 1e160]), 'array', '[[1,1],[1,1]]', 2.0),
    ('vectiny', 'MatrixGrader', 'x*1e-170*[1,2]', ['x'],
     lambda x, y: ('arr', [x * 1e-170, 2 * x * 1e-170]), 'array', '[1,1]', math.sqrt(2.0)),
    ('cvechuge', 'MatrixGrader', 'x*1e170*[1+i, 2, i]', ['x'],
     lambda x, y: ('arr', [x * 1e170 * (1 + 1j), 2 * x * 1e170, x * 1e170 * 1j]), 'array', '[1,i,1+i]', 2.0),
    ('num', 'NumericalGrader', '3.5*2', [], lambda x, y: 7.0, 'scalar', None, 1.0),
    ('numc', 'NumericalGrader', '2+3*i', [], lambda x, y: 2 + 3j, 'complex', None, 1.0),
]

TOLS = [0, 0.001, 0.01, 0.5, '0%', '0.01%', '1%', '5%', '10%', '0.5%', '0.00002%', '0.000005%', 1e-7, '2e-3%']


def norm_of(val):
    if isinstance(val, tuple):
        # (hypot scales internally: squaring the entries would leave the float range)
        return math.hypot(*[abs(v) for v in val[1]])
    return abs(val)


class C04World(object):
    PROP = 'C04'

    def plan(self, tier):
        return {'runs': {'quick': 6000, 'thorough': 120000}[tier], 'timeout': 60.0}

    def baseline(self):
        return {}

    def generate(self, rng, tier, idx):
        pi = rng.randrange(len(PROBLEMS))
        name, cls, ans, variables, fn, kind, E, enorm = PROBLEMS[pi]
        if cls == 'NumericalGrader':
            n, f = 1, 0
        else:
            n = rng.choice([1, 2, 3, 4, 5, 5, 8])
            f = rng.randint(0, n + 1) if rng.random() < 0.75 else 0
        tol = rng.choice(TOLS)
        credit = rng.choice([1, 1, 0.5, 0.25])
        two_alts = rng.random() < 0.2
        signs = None
        prob = {'p': pi, 'n': n, 'f': f, 'tol': tol, 'credit': credit, 'two_alts': two_alts,
                'msg': rng.choice(['', 'good']), 'debug': rng.random() < 0.1}
        events = []
        for _ in range(rng.randint(1, 6)):
            form = rng.choices(['add', 'mult', 'sign', 'rewrite', 'inf'], [5, 3, 1.2, 1, 0.6])[0]
            if form == 'sign' and name not in ('lin', 'neg'):
                form = 'add'
            if form == 'inf' and cls != 'FormulaGrader':
                form = 'add'
            ev = {'op': 'grade', 'form': form, 'subseed': rng.getrandbits(31),
                  'ws': rng.randrange(3)}
            if form in ('add', 'mult'):
                # per sample: which category of deviation
                cats = []
                mode = rng.random()
                for k in range(n):
                    if mode < 0.2:
                        cats.append('zero')
                    elif mode < 0.5:
                        # exactly at the fault budget boundary: f or f+1 bad samples
                        cats.append(None)
                    else:
                        cats.append(rng.choice(['zero', 'in', 'edge_in', 'edge_out', 'out', 'edge_out',
                                                'edge_in']))
                if mode >= 0.2 and mode < 0.5:
                    nbad = min(n, max(0, f + rng.choice([0, 1])))
                    bad_idx = set(rng.sample(range(n), nbad))
                    cats = [rng.choice(['edge_out', 'out']) if k in bad_idx
                            else rng.choice(['zero', 'in', 'edge_in']) for k in range(n)]
                ev['cats'] = cats
                ev['sgn'] = [rng.choice([1, -1]) for _ in range(n)]
                ev['phase'] = [rng.random() * 6.28 for _ in range(n)]
            elif form == 'sign':
                ev['signs'] = [rng.choice([1, 1, -1]) for _ in range(n)]
            elif form == 'inf':
                ev['inf_case'] = rng.randrange(5)
            events.append(ev)
        return {'world': 'c04', 'problem': prob, 'events': events, 'fault_free': False}

    def execute(self, journal, baseline):
        return Run(journal).run()


class Run(object):
    def __init__(self, journal):
        self.lib = load_lib()
        self.j = journal
        self.p = journal['problem']
        (self.name, self.cls, self.ans, self.variables, self.fn, self.kind, self.E,
         self.enorm) = PROBLEMS[self.p['p']]
        self.violations = []
        self.stats, self.probes, self.refs = {}, {}, {}
        self.env = seams.Env('orig', self.stats)
        self.cur = None           # current event
        self.handed = {}          # variable -> list of values handed out in this event
        self.dev_calls = 0
        self.deltas = []

    def bump(self, d, k, n=1):
        d[k] = d.get(k, 0) + n

    def violate(self, check, i, detail):
        self.violations.append({'check': check, 'event': i, 'cls': self.cls, 'detail': detail[:1500],
                                'sig': '%s|%s' % (check, self.cls)})

    # -- the scripted deviation function ------------------------------------
    def dev(self, x):
        self.dev_calls += 1
        ev = self.cur
        n = self.p['n']
        if self.name in ('rfn', 'rfn2'):
            xs = [2.0 + v for v in self.xvals(ev)]
            try:
                k = xs.index(x)
            except ValueError:
                raise RuntimeError('dev() saw a value no sampled function produces: %r' % (x,))
        elif self.variables:
            xs = self.xvals(ev)
            try:
                k = xs.index(x)
            except ValueError:
                raise RuntimeError('dev() saw a value the sampler never handed out: %r' % (x,))
        else:
            k = 0
        return self.deltas[k % n]

    def xvals(self, ev):
        n = self.p['n']
        if ev.get('signs'):
            return [XS[k] * ev['signs'][k] for k in range(n)]
        return XS[:n]

    def tol_abs(self, A):
        tol = self.p['tol']
        if isinstance(tol, str):
            return float(tol[:-1]) / 100.0 * norm_of(A)
        return float(tol)

    def value(self, k, ev):
        xs = self.xvals(ev)
        return self.fn(xs[k], YS[k])

    def build(self, ev):
        m = self.lib.mitx
        SimSampler = seams.sim_classes()['SimSampler']
        n = self.p['n']
        cfg = {'tolerance': self.p['tol']}
        if self.p['debug']:
            cfg['debug'] = True
        if self.cls != 'NumericalGrader':
            cfg['samples'] = n
            cfg['failable_evals'] = self.p['f']
            cfg['variables'] = list(self.variables)
            sf = {}
            for v in self.variables:
                s = SimSampler(name='smp.' + v, values=list(self.xvals(ev) if v == 'x' else YS[:n]))
                s.env = self.env
                sf[v] = s
            cfg['sample_from'] = sf
        if self.cls == 'MatrixGrader':
            cfg['max_array_dim'] = 2
        dev = lambda x: self.dev(x)  # noqa: E731
        cfg['user_functions'] = {'dev': dev}
        if self.name in ('rfn', 'rfn2'):
            SimFunctionSet = seams.sim_classes()['SimFunctionSet']

            def shifted(c):
                return lambda t: t + c
            fset = SimFunctionSet(name='fset', funcs=[shifted(c) for c in self.xvals(ev)])
            fset.env = self.env
            cfg['user_functions']['f'] = fset
        ans = {'expect': self.ans, 'grade_decimal': self.p['credit'], 'msg': self.p['msg']}
        if ev['form'] == 'inf':
            cfg['allow_inf'] = True
        if self.p['two_alts']:
            far = {'expect': '(' + self.ans + ')*1000+1000' if self.kind != 'array' else '(' + self.ans + ')*1000+1000*' + self.E,
                   'grade_decimal': 0.9}
            cfg['answers'] = (ans, far)
        else:
            cfg['answers'] = ans
        return getattr(m, self.cls)(**cfg)

    def render(self, text, ev):
        if ev.get('ws') == 1:
            return '  ' + text.replace('+', ' + ').replace('*', ' * ') + ' '
        if ev.get('ws') == 2:
            return '(' + text + ')'
        return text

    def do_grade(self, i, ev):
        n, f = self.p['n'], self.p['f']
        form = ev['form']
        self.cur = ev
        arg = 'x' if self.variables else '0'
        if self.name in ('rfn', 'rfn2'):
            arg = 'f(2)'
        if form in ('add', 'mult'):
            deltas = []
            bad = []
            for k in range(n):
                A = self.value(k, ev)
                thr = self.tol_abs(A)
                nA = norm_of(A)
                cat = ev['cats'][k]
                if form == 'add':
                    scale = 1.0 / self.enorm           # |diff| = |delta| * ||E||
                elif nA == 0:
                    # A*(1+eps) is exactly A when A is zero: never a bad sample
                    deltas.append(0.25 * ev['sgn'][k])
                    bad.append(False)
                    self.bump(self.probes, 'expected value exactly zero')
                    continue
                else:
                    scale = 1.0 / nA                   # |diff| = |eps| * ||A||
                if nA == 0:
                    self.bump(self.probes, 'expected value exactly zero')
                if 0 < thr < 1e-9 * nA:
                    # a deviation of the size of this threshold is lost in floating-point rounding
                    # next to a value of this magnitude: only schedule what survives it
                    cat = {'in': 'zero', 'edge_in': 'zero', 'edge_out': 'out'}.get(cat, cat)
                if thr == 0:
                    if cat in ('zero', 'in', 'edge_in'):
                        mag, isbad = 0.0, False
                    else:
                        mag, isbad = (1e-6 if cat == 'edge_out' else 0.3) * (1 + nA), True
                else:
                    mag, isbad = {'zero': (0.0, False), 'in': (0.5 * thr, False),
                                  'edge_in': (thr * (1 - 1e-4), False),
                                  'edge_out': (thr * (1 + 1e-4), True),
                                  'out': (3 * thr + 0.01 * nA, True)}[cat]
                d = mag * scale * ev['sgn'][k]
                if self.kind == 'complex' and form == 'add':
                    d = cmath.rect(mag * scale, ev['phase'][k])
                deltas.append(d)
                bad.append(isbad)
            self.deltas = deltas
            if form == 'add':
                student = '%s + dev(%s)%s' % (self.ans, arg, ('*' + self.E) if self.E else '')
            else:
                student = '(%s)*(1+dev(%s))' % (self.ans, arg)
            nbad = sum(bad)
            self.bump(self.probes, 'bad samples == budget' if nbad == f else
                      ('bad samples == budget+1' if nbad == f + 1 else 'other bad count'))
            if any(c in ('edge_in', 'edge_out') for c in ev['cats']):
                self.bump(self.probes, 'deviation at the tolerance boundary')
        elif form == 'sign':
            self.deltas = [0.0] * n
            bad = [s < 0 for s in ev['signs']]
            # sqrt(x^2) agrees with x only where the sampler scheduled a positive value
            student = self.ans.replace('x', 'sqrt(x^2)') if self.name != 'neg' else '-sqrt(x^2)^3'
            nbad = sum(bad)
            if self.tol_is_huge(ev):
                return None
            self.bump(self.probes, 'branch variant with %s' % ('some negative samples' if nbad else 'all positive'))
        elif form == 'rewrite':
            self.deltas = [0.0] * n
            student = '0 + 1*(%s) + dev(%s)' % (self.ans, arg)
            bad = [False] * n
            nbad = 0
        else:
            return self.do_inf(i, ev)
        student = self.render(student, ev)
        g = self.build(ev)
        self.env.begin(ev)
        self.dev_calls = 0
        seams.seed_lib(ev['subseed'])
        o = outcome(g, None, student)
        self.env.end()
        if n == 1:
            correct = nbad == 0
        else:
            correct = nbad <= f
        if form == 'sign' and self.name == 'neg':
            pass
        self.refs['history-oracle'] = self.refs.get('history-oracle', 0) + 1
        desc = ('%s(%s) N=%d f=%d tol=%r form=%s bad=%s deltas=%s student=%r'
                % (self.cls, self.ans, n, f, self.p['tol'], form, bad, self.deltas, student))
        if o['k'] != 'ret':
            self.violate('verdict', i, 'call raised %s ; %s' % (short(o), desc))
            return o
        v = o['v']
        gd = v['grade_decimal']
        gd = float(gd['f']) if isinstance(gd, dict) and 'f' in gd else (
            float(gd['v']['f']) if isinstance(gd, dict) and 'np' in gd else float(gd))
        want = float(self.p['credit']) if correct else 0.0
        if self.p['two_alts'] and n > 1 and f >= n:
            # the far alternative disagrees at every sample, which failable_evals >= samples tolerates
            want = max(want, 0.9)
            correct = True
            self.bump(self.probes, 'fault budget covers every sample')
        if abs(gd - want) > 1e-12:
            self.violate('verdict', i, 'grade %r but %d of %d samples are outside the tolerance and '
                         'failable_evals=%d, so the grade must be %r ; %s'
                         % (gd, nbad, n, f, want, desc))
        elif correct:
            want_ok = True if want == 1 else 'partial'
            if v['ok'] != want_ok or (not self.p['debug'] and want != 0.9 and v['msg'] != self.p['msg']):
                self.violate('verdict', i, 'matched answer should give ok=%r msg=%r, got %s ; %s'
                             % (want_ok, self.p['msg'], short(o), desc))
        elif v['ok'] is not False:
            self.violate('verdict', i, 'incorrect response has ok=%r ; %s' % (v['ok'], desc))
        return o

    def tol_is_huge(self, ev):
        # sign variants differ by 2|value|; skip configurations whose tolerance could cover that
        tol = self.p['tol']
        return not isinstance(tol, str) and tol >= 0.5

    def do_inf(self, i, ev):
        m = self.lib.mitx
        cases = [('infty', 'infty', True), ('infty', '-infty', False), ('infty', 'x', False),
                 ('x', 'infty', False), ('-infty', '-infty', True)]
        ans, student, want = cases[ev['inf_case']]
        g = m.FormulaGrader(answers=ans, variables=['x'], allow_inf=True, tolerance=self.p['tol'],
                            samples=self.p['n'], failable_evals=0)
        seams.seed_lib(ev['subseed'])
        o = outcome(g, None, student)
        self.refs['history-oracle'] = self.refs.get('history-oracle', 0) + 1
        self.bump(self.probes, 'infinite value compared')
        if o['k'] != 'ret' or (o['v']['ok'] is True) != want:
            self.violate('verdict', i, 'answer %r student %r with allow_inf: got %s, expected correct=%s'
                         % (ans, student, short(o), want))
        return o

    def run(self):
        log, sig = [], []
        for i, ev in enumerate(self.j['events']):
            o = self.do_grade(i, ev)
            if o is None:
                continue
            log.append([i, core.jdigest(o)])
            sig.append([ev['form'], ev.get('cats'), ev.get('signs'), o.get('cls', 'ret')])
        p = self.p
        sample = {'problem': {'grader': self.cls, 'answer': self.ans, 'samples': p['n'],
                              'failable_evals': p['f'], 'tolerance': p['tol'], 'credit': p['credit']},
                  'events': [{k: v for k, v in e.items() if k in ('form', 'cats', 'signs', 'inf_case')}
                             for e in self.j['events'][:4]]}
        nontrivial = any(e['form'] in ('add', 'mult', 'sign') for e in self.j['events'])
        return {'violations': self.violations, 'fired': self.stats, 'probes': self.probes,
                'refs': self.refs, 'events': len(self.j['events']), 'sim_time': 0,
                'sig': core.jdigest([p['p'], p['n'], p['f'], p['tol'], sig]), 'nontrivial': nontrivial,
                'class': 'fault-injecting', 'log': core.jdigest(log), 'sample': sample}


WORLD = C04World()
