"""C11 -- a grader's verdict depends only on its configuration and the current call."""
from gradesim.worlds.tenants import TenantWorld

PROFILE = {
    'prop': 'C11', 'name': 'c11',
    'kinds': {'string': 2, 'formula': 3, 'numerical': 1.5, 'matrix': 2.5, 'simitem': 2,
              'singlelist': 2.5, 'interval': 2, 'sum': 0.7, 'list': 2, 'integral': 0.4},
    'n_tenants': (2, 6),
    'len': {'quick': (2, 24), 'thorough': (2, 60)},
    'runs': {'quick': 2400, 'thorough': 30000},
    'p_fault_free': 0.35,
    'p_dict_reuse': 0.2,
    'p_credit': 0.08,
    'p_stay': 0.6,
    'faults': {'F1': 0.12, 'F2': 0.08, 'F3': 0.08, 'F4': 0.2, 'F5': 0.06, 'F6': 0.15, 'F9': 0.05,
               'reg': 0.07, 'eval': 0.05, 'cmp': 0.05},
    'r3': 0.08,
    'judges': ['R1', 'I-author', 'I-others', 'R2'],
}

WORLD = TenantWorld(PROFILE)
