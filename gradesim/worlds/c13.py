"""
C13 -- sampled variable sets are complete and dependent values are consistent.

Read as a snapshot-consistency property over the history of values *used* inside one grader
call.  A run builds a formula problem whose variables form a random dependency DAG (chains,
diamonds, fan-in/out, dependence on constants, a vector, numbered variables) declared in a
scheduler-chosen order, or a cyclic / dangling variant.  Observation is through recording
user functions: probe(...) in the author's answer, probe2(...) in the student's input and
probeD<j>(...) inside the j-th dependent formula; independent variables come from recording
sampling sets.  Nothing private is read.

Oracle per sample index k: author-side and student-side reads agree; each independent value
is the one its sampler handed out; numbered instances received distinct draws of their base
sampler; every dependent value equals the generator's own Python evaluation of its formula
on the same sample's values (resolved topologically, independent of declaration order); the
operands a dependent formula saw are the sample's values; unshadowed constants have their
standard values.  Cyclic / dangling configurations must give a ConfigError within budget.
The same seeds run under several PYTHONHASHSEEDs (the library iterates sets here: F8).
"""
import math

from gradesim import core, seams
from gradesim.core import load_lib, outcome, short

FORMS = [
    ('{0}+{1}', 2, lambda a, b: a + b),
    ('{0}*{1}', 2, lambda a, b: a * b),
    ('2*{0}-{1}', 2, lambda a, b: 2 * a - b),
    ('{0}+pi', 1, lambda a: a + math.pi),
    ('{0}*e', 1, lambda a: a * math.e),
    ('{0}/{1}', 2, lambda a, b: a / b),
    ('{0}+{1}+{2}', 3, lambda a, b, c: a + b + c),
    ('{0}^2', 1, lambda a: a ** 2),
    ('{0}-1', 1, lambda a: a - 1),
    ('1/({0}-1.1)', 1, lambda a: 1.0 / (a - 1.1)),     # a pole exactly at v0's first scheduled value
    ('3', 0, lambda: 3.0),
    ('pi*2', 0, lambda: math.pi * 2),
]


class C13World(object):
    PROP = 'C13'

    def plan(self, tier):
        return {'runs': {'quick': 3000, 'thorough': 40000}[tier], 'timeout': 60.0}

    def baseline(self):
        return {}

    def generate(self, rng, tier, idx):
        n_ind = rng.randint(1, 4)
        n_dep = rng.randint(0, 8 - n_ind)
        ind = ['v%d' % k for k in range(n_ind)]
        shadow_e = rng.random() < 0.1
        if shadow_e:
            ind[0] = 'e'
        numbered = []
        if rng.random() < 0.45:
            numbered = rng.sample(['a_{1}', 'a_{2}', 'a_{-3}', 'a_{12}', 'a_{0}'], rng.randint(1, 3))
        vector = rng.random() < 0.2
        deps = []
        avail = list(ind) + list(numbered)
        variant = rng.choices(['dag', 'cycle', 'dangling', 'selfcycle', 'numbered_only_in_dep'],
                              [7, 1, 1, 0.5, 0.7])[0]
        pole_at = rng.randrange(n_dep) if (n_dep and rng.random() < 0.08) else None
        for j in range(n_dep):
            fi = rng.randrange(len(FORMS))
            while FORMS[fi][0].startswith('1/('):
                fi = rng.randrange(len(FORMS))
            if j == pole_at:
                fi = [k for k, f in enumerate(FORMS) if f[0].startswith('1/(')][0]
            text, arity, _ = FORMS[fi]
            pool = avail + [d['name'] for d in deps]
            # bias towards recent dependents: chains and diamonds
            ops = []
            for _ in range(arity):
                if deps and rng.random() < 0.6:
                    ops.append(rng.choice([d['name'] for d in deps[-3:]]))
                else:
                    ops.append(rng.choice(pool))
            if text == '{0}/{1}':
                # keep the author's configuration well-defined: divide by an independent variable
                # only (a dependent such as v0/v0-1 would be zero)
                ops[1] = rng.choice(ind)
            if FORMS[fi][0].startswith('1/('):
                ops = [ind[0]]          # v0's first scheduled value is exactly 1.1
            deps.append({'name': 'd%d' % j, 'form': fi, 'ops': ops})
        if vector and deps:
            deps.append({'name': 'dw', 'form': -1, 'ops': ['w']})
        bad = None
        if variant == 'cycle' and len(deps) >= 2:
            a, b = rng.sample(range(len(deps)), 2)
            if deps[a]['form'] >= 0 and deps[b]['form'] >= 0:
                deps[a] = {'name': deps[a]['name'], 'form': 0, 'ops': [deps[b]['name'], ind[0]]}
                deps[b] = {'name': deps[b]['name'], 'form': 1, 'ops': [deps[a]['name'], ind[0]]}
                bad = 'cycle'
        elif variant == 'selfcycle' and deps and deps[0]['form'] >= 0:
            deps[0] = {'name': deps[0]['name'], 'form': 8, 'ops': [deps[0]['name']]}
            bad = 'cycle'
        elif variant == 'dangling' and deps and deps[-1]['form'] >= 0:
            deps[-1] = {'name': deps[-1]['name'], 'form': 0, 'ops': ['zz', ind[0]]}
            bad = 'dangling'
        elif variant == 'numbered_only_in_dep' and deps and deps[-1]['form'] >= 0:
            numbered = [n for n in numbered if n != 'a_{7}']
            deps[-1] = {'name': deps[-1]['name'], 'form': 0, 'ops': ['a_{7}', ind[0]]}
            bad = 'dangling'
        if not shadow_e and bad is None and len(deps) >= 2 and rng.random() < 0.12:
            # a *dependent* variable shadows the constant e; later formulas that mention e must
            # see the dependent's value, not the constant
            k = rng.randrange(len(deps) - 1)
            if deps[k]['form'] >= 0 and 'e' not in FORMS[deps[k]['form']][0]:
                for d in deps:
                    if d['form'] == 4:
                        d['form'] = 8                    # no other formula mentions e
                old = deps[k]['name']
                deps[k]['name'] = 'e'
                for d in deps:
                    d['ops'] = ['e' if o == old else o for o in d['ops']]
                later = deps[rng.randrange(k + 1, len(deps))]
                if later['form'] >= 0:
                    later['form'], later['ops'] = 4, [ind[0]]        # '{0}*e'
                shadow_e = True
        collide = None
        if numbered and rng.random() < 0.2:
            # a plainly declared variable whose name looks like a numbered instance takes priority
            collide = numbered[0]
            numbered = numbered[1:]
            ind.append(collide)
        names = list(ind) + (['w'] if vector else []) + [d['name'] for d in deps]
        samples = rng.choice([1, 2, 3, 5])
        events = []
        for _ in range(rng.randint(1, 4)):
            order = list(names)
            rng.shuffle(order)
            sf_order = list(names)
            rng.shuffle(sf_order)
            events.append({'op': 'grade', 'order': order, 'sf_order': sf_order,
                           'subseed': rng.getrandbits(31), 'rng': rng.choice(['values', 'values', 'rng'])})
            if numbered and bad is None and rng.random() < 0.25:
                events[-1]['bad_instance'] = rng.choice(['a_{05}', 'a_{-05}', 'a_{1.0}', 'A_{1}', 'a_{+1}', 'a_1'])
        if rng.random() < 0.25:
            # sibling inputs of an ordered ListGrader become dependent variables as well
            events.append({'op': 'sib', 'case': rng.randrange(4), 'subseed': rng.getrandbits(31),
                           'samples': rng.choice([1, 2, 4]), 'order': rng.random() < 0.5,
                           'variant': rng.choice([0, 0, 1, 2, 3])})
        uconst = {}
        nbase = 'a'
        if rng.random() < 0.35:
            uconst['c0'] = rng.choice([2.5, -1.25, 10])
            if rng.random() < 0.5:
                uconst['pi'] = 3.0            # the author overrides a default constant
            if numbered and collide is None and rng.random() < 0.4:
                # the numbered-variable base name is also the name of a (user) constant: the
                # instances c0_{n} are sampled, the plain name c0 stays the constant
                nbase = 'c0'
                ren = lambda nm: 'c0' + nm[1:] if nm.startswith('a_{') else nm   # noqa: E731
                numbered = [ren(nm) for nm in numbered]
                for d in deps:
                    d['ops'] = [ren(o) for o in d['ops']]
                for e in events:
                    if 'order' in e and isinstance(e['order'], list):
                        e['order'] = [ren(x) for x in e['order']]
                        e['sf_order'] = [ren(x) for x in e['sf_order']]
        pole = any(FORMS[d['form']][0].startswith('1/(') for d in deps if d['form'] >= 0)
        return {'world': 'c13', 'uconst': uconst, 'nbase': nbase, 'pole': pole, 'ind': ind, 'numbered': numbered, 'vector': vector, 'deps': deps,
                'bad': bad, 'samples': samples, 'shadow_e': shadow_e, 'events': events, 'collide': collide,
                'two_answers': rng.random() < 0.15, 'fault_free': bad is None}

    def execute(self, journal, baseline):
        return Run(journal).run()


class Run(object):
    def __init__(self, journal):
        self.lib = load_lib()
        self.j = journal
        self.violations = []
        self.stats, self.probes, self.refs = {}, {}, {}
        self.env = seams.Env('orig', self.stats)
        self.rec = {}

    def bump(self, d, k, n=1):
        d[k] = d.get(k, 0) + n

    def violate(self, check, i, detail):
        self.violations.append({'check': check, 'event': i, 'cls': 'FormulaGrader', 'detail': detail[:1800],
                                'sig': '%s|FormulaGrader' % check})

    def dep_formula(self, d):
        if d['form'] == -1:
            return 'w*w'
        return FORMS[d['form']][0].format(*d['ops'])

    def make_probe(self, name, arity):
        rec = self.rec

        def probe(*args):
            rec.setdefault(name, []).append([core.canon(a) for a in args])
            return 0.0
        probe.nin = arity
        return probe

    def build(self, ev):
        j = self.j
        m = self.lib.mitx
        SimSampler = seams.sim_classes()['SimSampler']
        self.scalars = list(j['ind']) + list(j['numbered']) + [d['name'] for d in j['deps']]
        consts = ['pi'] + ([] if j['shadow_e'] else ['e']) + (['c0'] if 'c0' in j.get('uconst', {}) else [])
        self.probe_args = self.scalars + consts
        ufs = {'probe': self.make_probe('probe', len(self.probe_args)),
               'probe2': self.make_probe('probe2', len(self.probe_args))}
        sf = {}
        built = {}
        for k, v in enumerate(j['ind']):
            vals = [round(1.1 + 0.7 * k + 0.013 * t, 6) for t in range(64)]
            s = SimSampler(name='smp.' + v, values=vals, mode=ev['rng'], lo=1.0 + k, hi=1.5 + k)
            s.env = self.env
            built[v] = s
        if j['vector']:
            s = SimSampler(name='smp.w', values=[[1.0 + 0.1 * t, 2.0, -0.5 * t] for t in range(16)])
            s.env = self.env
            built['w'] = s
        for idx, d in enumerate(j['deps']):
            formula = self.dep_formula(d)
            ops = [o for o in d['ops']]
            if ops and d['form'] >= 0 and 'zz' not in ops:
                pname = 'probeD%d' % idx
                ufs[pname] = self.make_probe(pname, len(ops))
                formula = '%s+%s(%s)' % (formula, pname, ','.join(ops))
            built[d['name']] = m.DependentSampler(formula=formula)
        for name in ev['sf_order']:
            if name in built:
                sf[name] = built[name]
        cfg = {'variables': [n for n in ev['order'] if n in built], 'sample_from': sf,
               'samples': j['samples'], 'user_functions': ufs}
        if j['numbered']:
            nbase = j.get('nbase', 'a')
            cfg['numbered_vars'] = [nbase]
            s = SimSampler(name='smp.a', values=[round(7.0 + 0.031 * t, 6) for t in range(64)],
                           mode=ev['rng'], lo=7.0, hi=8.0)
            s.env = self.env
            sf[nbase] = s
        if j.get('uconst'):
            cfg['user_constants'] = dict(j['uconst'])
            if 'pi' in j['uconst']:
                cfg['suppress_warnings'] = True
        if j['shadow_e']:
            cfg['suppress_warnings'] = True
        total = '+'.join(self.scalars)
        answer = 'probe(%s)+%s' % (','.join(self.probe_args), total)
        if j['vector']:
            answer += '+w*w'
        cfg['answers'] = answer if not j['two_answers'] else (answer, {'expect': '0*(' + answer + ')-1', 'grade_decimal': 0.5})
        rev = '+'.join(reversed(self.scalars))
        student = '%s + probe2(%s)' % (rev, ', '.join(self.probe_args))
        if j['vector']:
            student = 'w*w+' + student
        return m.FormulaGrader(**cfg), student

    def pyval(self, name, vals, depth=0):
        """The generator's own evaluation of a variable on one sample's independent values."""
        j = self.j
        if name in vals:
            return vals[name]
        if depth > 20:
            raise RuntimeError('cycle')
        for d in j['deps']:
            if d['name'] == name:
                if d['form'] == -1:
                    w = vals['w']
                    return sum(x * x for x in w)
                fn = FORMS[d['form']][2]
                args = [self.pyval(o, vals, depth + 1) for o in d['ops']]
                pi_val = j.get('uconst', {}).get('pi', math.pi)
                if pi_val != math.pi and 'pi' in FORMS[d['form']][0]:
                    if FORMS[d['form']][0] == '{0}+pi':
                        vals[name] = args[0] + pi_val
                    else:
                        vals[name] = pi_val * 2
                    return vals[name]
                if FORMS[d['form']][0] == '{0}*e' and j['shadow_e']:
                    # the constant e is shadowed by the variable named e
                    vals[name] = args[0] * self.pyval('e', vals, depth + 1)
                    return vals[name]
                vals[name] = fn(*args)
                return vals[name]
        raise KeyError(name)

    @staticmethod
    def num(c):
        if isinstance(c, dict):
            if 'f' in c:
                return float(c['f'])
            if 'np' in c:
                return Run.num(c['v'])
            if 'c' in c:
                return complex(float(c['c'][0]), float(c['c'][1]))
        return float(c)

    def do_grade(self, i, ev):
        j = self.j
        o_b = outcome(self.build, ev)
        if o_b['k'] != 'ret':
            if j['bad']:
                # refused already at construction: also fine for a circular / undefined dependency
                if o_b['fam'] != 'config':
                    self.violate('diagnosis', i, 'construction of a %s configuration raised %s' % (j['bad'], short(o_b)))
                return o_b
            self.violate('construct', i, 'valid DAG configuration refused: %s' % short(o_b))
            return o_b
        g, student = self.build(ev)
        if ev.get('bad_instance') and not j.get('pole'):
            # not a numbered instance (leading zeros, sign, case ...): must be an undefined variable
            seams.seed_lib(ev['subseed'])
            bad_name = ev['bad_instance']
            if j.get('nbase', 'a') != 'a':
                bad_name = bad_name.replace('a_', 'c0_').replace('A_', 'C0_')
            ob = outcome(g, None, student + ' + 0*' + bad_name)
            self.bump(self.probes, 'malformed numbered instance submitted')
            if not (ob['k'] == 'exc' and ob['fam'] == 'student'):
                self.violate('numbered', i, 'input mentioning %s gave %s ; only a_{<integer without leading zeros>} '
                             'is a numbered instance' % (ev['bad_instance'], short(ob)))
        self.rec.clear()
        self.env.begin(ev)
        seams.seed_lib(ev['subseed'])
        try:
            o, steps = seams.run_with_budget(lambda: outcome(g, None, student), 3000000)
        except seams.BudgetExceeded:
            self.violate('I-budget', i, 'grading did not finish within its step budget (bad=%s)' % j['bad'])
            self.env.end()
            return {'k': 'exc', 'cls': 'BudgetExceeded', 'msg': '', 'fam': 'other'}
        handed = {}
        for name, k, val in self.env.records:
            handed.setdefault(name, []).append(val)
        self.env.end()
        self.bump(self.refs, 'history-oracle')
        desc = 'deps=%s order=%s' % ([(d['name'], self.dep_formula(d)) for d in j['deps']], ev['order'])
        if j['bad']:
            if not (o['k'] == 'exc' and o['fam'] == 'config'):
                self.violate('diagnosis', i, '%s dependency gave %s instead of a configuration error; %s'
                             % (j['bad'], short(o), desc))
            else:
                self.bump(self.probes, '%s dependency diagnosed' % j['bad'])
            return o
        if o['k'] != 'ret':
            if j.get('pole') and o['fam'] == 'config':
                # the author's dependent formula has a pole at one of the scheduled values: refusing
                # is fine; handing out inconsistent values instead would not be
                self.bump(self.probes, 'pole in a dependent formula refused')
                return o
            self.violate('complete', i, 'acyclic configuration raised %s ; %s' % (short(o), desc))
            return o
        n = j['samples']
        A, S = self.rec.get('probe', []), self.rec.get('probe2', [])
        n_ans = 2 if j['two_answers'] else 1
        if len(A) != n * n_ans or len(S) != n * n_ans:
            self.violate('complete', i, 'expected %d author-side and student-side evaluations, saw %d and %d'
                         % (n * n_ans, len(A), len(S)))
            return o
        if o['v']['ok'] is not True:
            self.violate('verdict', i, 'a reordering of the answer was graded %s ; %s' % (short(o), desc))
        args = self.probe_args
        m_inst = len(j['numbered'])
        for k in range(n * n_ans):
            try:
                if self.judge_sample(i, k, A, S, handed, args, m_inst, n, n_ans, desc):
                    break
            except (KeyError, IndexError) as err:
                # the recorded history lacks a value the oracle needs: itself a completeness failure
                self.violate('complete', i, 'sample %d: recorded history has no value for %s ; %s' % (k, err, desc))
                break
        return o

    def judge_sample(self, i, k, A, S, handed, args, m_inst, n, n_ans, desc):
        j = self.j
        if True:
            # Samples are identified by VALUE, not by position: every handed-out value is distinct,
            # so the first independent variable's value names the sample whatever order the
            # library evaluates samples in.
            row = dict(zip(args, [self.num(x) for x in A[k]]))
            key = j['ind'][0]
            hk = [self.num(x) for x in handed.get('smp.' + key, [])]
            if row[key] not in hk:
                self.violate('consistent', i, 'evaluation %d: %s=%r was never handed out by its sampling set (%s) ; %s'
                             % (k, key, row[key], hk[:6], desc))
                return True
            sidx = hk.index(row[key])
            srows = [r for r in S if self.num(r[args.index(key)]) == row[key]]
            if len(srows) != 1 or srows[0] != A[k]:
                self.violate('consistent', i, 'sample with %s=%r: author side saw %s, student side saw %s ; %s'
                             % (key, row[key], A[k], srows, desc))
                return True
            vals = {}
            for v in j['ind']:
                hv = [self.num(x) for x in handed.get('smp.' + v, [])]
                if len(hv) <= sidx or row[v] != hv[sidx]:
                    self.violate('consistent', i, 'sample %d: %s=%r but its sampler handed out %r for that sample ; %s'
                                 % (sidx, v, row[v], hv[sidx] if len(hv) > sidx else None, desc))
                vals[v] = row[v]
            if m_inst:
                pool = [self.num(x) for x in handed.get('smp.a', [])]
                got = [row[nm] for nm in j['numbered']]
                if any(g not in pool for g in got) or len(set(got)) != len(got):
                    self.violate('consistent', i, 'sample %d: numbered instances %s have values %s; each must be '
                                 'its own draw of the base sampling set, which handed out %s ; %s'
                                 % (sidx, j['numbered'], got, pool[:8], desc))
                self.used_numbered = getattr(self, 'used_numbered', [])
                self.used_numbered += got
                for nm in j['numbered']:
                    vals[nm] = row[nm]
                self.bump(self.probes, 'numbered instances checked')
            if j['vector']:
                wrec = handed['smp.w'][sidx]
                vals['w'] = [self.num(x) for x in wrec['v']]
            want_pi = j.get('uconst', {}).get('pi', math.pi)
            if row['pi'] != want_pi or ('e' in row and not j['shadow_e'] and row['e'] != math.e):
                self.violate('complete', i, 'sample %d: constants pi/e have values %r/%r (pi should be %r)'
                             % (k, row['pi'], row.get('e'), want_pi))
            if 'c0' in row and row['c0'] != j['uconst']['c0']:
                self.violate('complete', i, 'sample %d: user constant c0=%r, configured %r' % (k, row['c0'], j['uconst']['c0']))
            for idx, d in enumerate(j['deps']):
                want = self.pyval(d['name'], vals)
                got = row[d['name']]
                if abs(got - want) > 1e-9 * (1 + abs(want)):
                    self.violate('consistent', i, 'sample %d: dependent %s = %s evaluates to %r on this '
                                 "sample's values, but %r was used ; %s"
                                 % (k, d['name'], self.dep_formula(d), want, got, desc))
                    return True
                D = self.rec.get('probeD%d' % idx)
                if D is not None:
                    if len(D) != n * n_ans:
                        self.violate('complete', i, 'dependent %s evaluated %d times for %d samples'
                                     % (d['name'], len(D), n * n_ans))
                    elif d['form'] >= 0:
                        exp = [self.pyval(op, vals) for op in d['ops']]
                        found = False
                        for drow in D:
                            saw = [self.num(x) for x in drow]
                            if all(abs(a - b) <= 1e-9 * (1 + abs(b)) for a, b in zip(saw, exp)):
                                found = True
                                break
                        if not found:
                            self.violate('consistent', i, "sample %d: no evaluation of the formula of %s saw this sample's "
                                         'operand values %s (it saw %s) ; %s'
                                         % (sidx, d['name'], exp, [[self.num(x) for x in r] for r in D][:4], desc))
            if len(j['deps']) >= 3:
                self.bump(self.probes, 'dependency chain of 3+ resolved')
        return False

    def do_sib(self, i, ev):
        """
        Sibling variables: in an ordered list of formula inputs, an answer may refer to the other
        inputs as sibling_k; each referenced input is sampled as a dependent variable, i.e. its
        value must be that input's formula evaluated on the same sample.
        """
        m = self.lib.mitx
        SimSampler = seams.sim_classes()['SimSampler']
        n = ev['samples']
        cases = [
            # (answers, inputs, {sibling name: python function of x}, expected all-correct)
            (['probe(sibling_2, x) + sibling_2 + 1', 'x^2'], ['x^2 + 1', 'x^2'], {'sibling_2': lambda x: x * x}, True),
            (['x', 'probe(sibling_1, x) + 2*sibling_1'], ['x', '2*x'], {'sibling_1': lambda x: x}, True),
            (['probe(sibling_2, sibling_3, x) + sibling_2*sibling_3', 'x+1', 'x-1'], ['x^2-1', 'x+1', 'x-1'],
             {'sibling_2': lambda x: x + 1, 'sibling_3': lambda x: x - 1}, True),
            (['probe(sibling_3, x) + sibling_3', 'probe2(sibling_1, x)*0 + x', 'x^3'], ['x^3', 'x', 'x^3'],
             {'sibling_3': lambda x: x ** 3}, True),
        ]
        answers, inputs, sibs, want = cases[ev['case']]
        self.rec.clear()
        smp = SimSampler(name='smp.x', values=[round(1.3 + 0.41 * t, 6) for t in range(16)])
        smp.env = self.env

        def fg(nprobe):
            return m.FormulaGrader(variables=['x'], sample_from={'x': smp}, samples=n,
                                   user_functions={'probe': self.make_probe('probe', nprobe),
                                                   'probe2': self.make_probe('probe2', 2)})
        sub = fg(len(sibs) + 1)
        variant = ev.get('variant', 0)
        if variant == 1:
            # a subgrader list with a non-formula grader first: sibling_k still counts inputs
            answers, inputs = ['cat', 'probe(sibling_3, x) + sibling_3 + 1', 'x^2'], ['cat', 'x^2 + 1', 'x^2']
            sibs = {'sibling_3': lambda x: x * x}
            g = m.ListGrader(answers=answers, subgraders=[m.StringGrader(), fg(2), fg(2)], ordered=True)
        elif variant == 2:
            # grouping: sibling_k is the k-th GROUP (here group 3 is the last box), not the k-th box
            answers = ['probe(sibling_3, x) + sibling_3', ['x', 'x+1'], 'x^3']
            inputs = ['x^3', 'x', 'x+1', 'x^3']
            sibs = {'sibling_3': lambda x: x ** 3}
            inner = m.ListGrader(subgraders=fg(2), ordered=True)
            g = m.ListGrader(answers=answers, subgraders=[fg(2), inner, fg(2)], ordered=True, grouping=[1, 2, 2, 3])
        elif variant == 3:
            answers = [['x', '2*x'], 'probe(sibling_1, x)*0 + x^2'] if False else ['x^2', ['x', '2*x'], 'probe(sibling_1, x) + sibling_1 - 1']
            inputs = ['x', '2*x', 'x^2', 'x^2 - 1'] if False else ['x^2', 'x', '2*x', 'x^2 - 1']
            sibs = {'sibling_1': lambda x: x * x}
            inner = m.ListGrader(subgraders=fg(2), ordered=True)
            g = m.ListGrader(answers=answers, subgraders=[fg(2), inner, fg(2)], ordered=True, grouping=[1, 2, 2, 3])
        else:
            g = m.ListGrader(answers=answers, subgraders=sub, ordered=True)
        self.env.begin(ev)
        seams.seed_lib(ev['subseed'])
        o = outcome(g, None, list(inputs))
        self.env.end()
        self.bump(self.refs, 'history-oracle')
        if o['k'] != 'ret':
            self.violate('complete', i, 'sibling list %r with inputs %r raised %s' % (answers, inputs, short(o)))
            return o
        oks = [e['ok'] for e in o['v']['input_list']]
        if want and not all(x is True for x in oks):
            self.violate('verdict', i, 'sibling list %r with matching inputs %r graded %s' % (answers, inputs, oks))
        names = sorted(sibs)
        for k, row in enumerate(self.rec.get('probe', [])):
            vals = [self.num(v) for v in row]
            x = vals[-1]
            for name, got in zip(names, vals[:-1]):
                exp = sibs[name](x)
                if abs(got - exp) > 1e-9 * (1 + abs(exp)):
                    self.violate('consistent', i, 'sample %d: %s=%r but that input evaluates to %r at x=%r (answers %r inputs %r)'
                                 % (k, name, got, exp, x, answers, inputs))
                    return o
        if not self.rec.get('probe'):
            self.violate('complete', i, 'sibling answer was never evaluated')
        else:
            self.bump(self.probes, 'sibling variables checked')
        return o

    def run(self):
        log, sig = [], []
        first = None
        for i, ev in enumerate(self.j['events']):
            if ev['op'] == 'sib':
                o = self.do_sib(i, ev)
                log.append([i, core.jdigest(o)])
                sig.append(['sib', ev['case'], ev.get('variant'), o.get('cls', 'ret')])
                continue
            o = self.do_grade(i, ev)
            log.append([i, core.jdigest(o)])
            key = 'ret' if o['k'] == 'ret' else o['cls']
            sig.append([key, ev['rng']])
            if ev['rng'] == 'values':
                # verdict invariance across declaration orders
                cmp = {'k': o['k'], 'ok': o['v'].get('ok') if o['k'] == 'ret' else o['cls']}
                if first is None:
                    first = cmp
                elif cmp != first:
                    self.violate('order', i, 'outcome depends on the declaration order: %s vs %s' % (first, cmp))
                else:
                    self.bump(self.probes, 'declaration order varied')
        j = self.j
        shape = [len(j['ind']), len(j['numbered']), j['vector'], [(d['form'], d['ops']) for d in j['deps']], j['bad']]
        sample = {'independent': j['ind'], 'numbered': j['numbered'],
                  'dependents': [[d['name'], self.dep_formula(d)] for d in j['deps']], 'variant': j['bad'] or 'dag',
                  'samples': j['samples'], 'orders': [e.get('order') for e in j['events'][:2]]}
        return {'violations': self.violations, 'fired': self.stats, 'probes': self.probes, 'refs': self.refs,
                'events': len(j['events']), 'sim_time': 0, 'sig': core.jdigest([shape, sig]),
                'nontrivial': len(j['deps']) >= 1 or bool(j['numbered']),
                'class': 'fault-injecting' if j['bad'] else 'fault-free',
                'log': core.jdigest(log), 'sample': sample}


WORLD = C13World()
