"""C17 -- attempt-based credit scales grades by a bounded, non-increasing schedule."""
from gradesim.worlds.tenants import TenantWorld

PROFILE = {
    'prop': 'C17', 'name': 'c17',
    'kinds': {'string': 2, 'formula': 2, 'numerical': 1, 'simitem': 2.5, 'singlelist': 2.5,
              'interval': 1.5, 'list': 3, 'matrix': 1, 'sum': 0.5},
    'n_tenants': (1, 3),
    'len': {'quick': (2, 40), 'thorough': (2, 80)},
    'runs': {'quick': 2500, 'thorough': 40000},
    'p_fault_free': 0.3,
    'p_dict_reuse': 0.0,
    'p_credit': 1.0,
    'credit_grid': True,
    'p_stay': 0.85,
    'themes': False,
    'faults': {'F1': 0.0, 'F2': 0.0, 'F3': 0.0, 'F4': 0.1, 'F5': 0.12, 'F6': 0.0, 'F9': 0.0,
               'reg': 0.03, 'eval': 0.0},
    'judges': ['attempt', 'dup'],
}

WORLD = TenantWorld(PROFILE)
